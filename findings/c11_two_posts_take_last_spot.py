"""fixed: C11 - two threads start a timed source at the same moment when one spot is left in the tracked list: both pass
the capacity check, the bounded deque silently drops the oldest tracked source, which can then never be cancelled.
The interleaving is forced by pausing both callers where the timer thread object is built (between check and append).
usage: PYTHONPATH=<tree> /venv/bin/python c11_two_posts_take_last_spot.py   (exit 1 = the first source survives its cancel)"""
import sys, time, threading
import miros.activeobject as ao_mod
from miros import ActiveObject, Event, signals, return_status, spy_on


class SmallAO(ActiveObject):
  QUEUE_SIZE = 2


seen = []


def s0(chart, e):
  if e.signal == signals.A:
    seen.append(time.time())
    return return_status.HANDLED
  if e.signal in (signals.ENTRY_SIGNAL, signals.INIT_SIGNAL, signals.EXIT_SIGNAL):
    return return_status.HANDLED
  chart.temp.fun = chart.top
  return return_status.SUPER


signals.append("A"); signals.append("B"); signals.append("R")
ao = SmallAO("small")
ao.start_at(s0)
first = ao.post_fifo(Event(signal=signals.A), period=0.05, times=0, deferred=True)

barrier = threading.Barrier(2, timeout=2)
RealThread = ao_mod.Thread


def PausingThread(*a, **k):
  try:
    barrier.wait()          # both callers are past the capacity check now
  except threading.BrokenBarrierError:
    pass                    # (repaired library: the second caller never gets here while the first is inside)
  return RealThread(*a, **k)


ao_mod.Thread = PausingThread
res = []


def poster(sig):
  try:
    res.append(("ok", ao.post_fifo(Event(signal=sig), period=5.0, times=0, deferred=True)))
  except ao_mod.ActiveObjectOutOfPostedEventResources:
    res.append(("rejected", sig))


ts = [threading.Thread(target=poster, args=(s,)) for s in (signals.B, signals.R)]
[t.start() for t in ts]
[t.join() for t in ts]
ao_mod.Thread = RealThread
ao.cancel_event(first)
time.sleep(0.2)
n = len(seen)
time.sleep(0.5)
print("posts:", [r[0] for r in res], "| events of the cancelled source after cancel:", len(seen) - n)
sys.exit(1 if len(seen) > n else 0)
