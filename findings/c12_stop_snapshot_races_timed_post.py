"""fixed: C12 - stop() took its snapshot of the tracked timed sources with a comprehension over the live deque; a timed
post made by another thread at that moment makes stop() raise 'RuntimeError: deque mutated during iteration' and the
sources are left running.  The interleaving is forced by a deque whose iterator pauses once after it was created.
usage: PYTHONPATH=<tree> /venv/bin/python c12_stop_snapshot_races_timed_post.py   (exit 1 = stop() raised)"""
import sys, threading, time
from collections import deque
from miros import ActiveObject, Event, signals, return_status


class PausingDeque(deque):
  armed = None

  def __iter__(self):
    it = super().__iter__()
    if self.armed is not None:
      ev, self.armed = self.armed, None
      ev[0].set()         # tell the other thread that the iteration has begun
      ev[1].wait(2)       # ... and let it post
    return it


def s0(chart, e):
  if e.signal in (signals.ENTRY_SIGNAL, signals.INIT_SIGNAL, signals.EXIT_SIGNAL):
    return return_status.HANDLED
  chart.temp.fun = chart.top
  return return_status.SUPER


ao = ActiveObject("demo")
ao.posted_events_queue = PausingDeque(ao.posted_events_queue, maxlen=ao.posted_events_queue.maxlen)
ao.start_at(s0)
ao.post_fifo(Event(signal="TICK"), period=0.05, times=0, deferred=True)
began, posted = threading.Event(), threading.Event()


def other():
  began.wait(5)
  ao.post_fifo(Event(signal="TOCK"), period=0.05, times=0, deferred=True)
  posted.set()


t = threading.Thread(target=other, daemon=True)
t.start()
time.sleep(0.1)
ao.posted_events_queue.armed = (began, posted)
try:
  ao.stop()
except RuntimeError as e:
  print("stop() raised:", e, "| sources still running:", sum(1 for p in ao.posted_events_queue if p.task_run_event.is_set()))
  sys.exit(1)
print("stop() returned | sources still running:", sum(1 for p in ao.posted_events_queue if p.task_run_event.is_set()))
sys.exit(0)
