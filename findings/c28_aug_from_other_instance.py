"""Known finding C28/lock-held/template=aug_self_from_other_instance, on the real library:
after 'o.a += p.a' (o and p two instances of one class) the calling thread keeps the attribute's lock;
every other thread that touches the attribute (on any instance) blocks.
usage: PYTHONPATH=/repo /venv/bin/python c28_aug_from_other_instance.py   (exit 1 = the lock is still held)"""
import sys, threading
from miros.thread_safe_attributes import MetaThreadSafeAttributes


class K(metaclass=MetaThreadSafeAttributes):
  _attributes = ['a']


o, p = K(), K()
o.a, p.a = 1, 2
o.a += p.a
got = []
t = threading.Thread(target=lambda: got.append(p.a), daemon=True)
t.start()
t.join(2)
print("value:", o.a, "| another thread could read the attribute:", bool(got))
sys.exit(0 if got else 1)
