"""Known finding C27/thread-stuck/two-attributes-each-augmented-with-the-other, shown on the real library with real
threads: 'o.a += o.b' keeps a's lock while it reads b, 'o.b += o.a' keeps b's lock while it reads a.
usage: PYTHONPATH=/repo /venv/bin/python c27_lock_order_inversion.py   (exit 1 = both threads blocked for ever)"""
import sys, threading
from miros.thread_safe_attributes import MetaThreadSafeAttributes


class K(metaclass=MetaThreadSafeAttributes):
  _attributes = ['a', 'b']


def t1(o, n):
  for _ in range(n):
    o.a += o.b


def t2(o, n):
  for _ in range(n):
    o.b += o.a


o = K()
o.a, o.b = 0, 1
sys.setswitchinterval(1e-6)
ts = [threading.Thread(target=f, args=(o, 20000), daemon=True) for f in (t1, t2)]
[t.start() for t in ts]
[t.join(20) for t in ts]
stuck = [t for t in ts if t.is_alive()]
print("blocked threads:", len(stuck))
sys.exit(1 if stuck else 0)
