"""Engine C for queued charts (C14, C15): BFS over operation sequences on a
real HsmWithQueues chart against a two-list reference model."""
from mc.common import Violation, pmap, ncpu
from mc import charts
from mc.charts import Table, use, SIG, ev
import miros.hsm as hsm

# handler scripts of the single-state chart: signal -> actions performed during the step
SCRIPT = {"A": [], "B": [("post_fifo", "A")], "C": [("post_lifo", "A")], "D": [("defer", "D")], "E": [("recall",)],
          "F": [("post_lifo", "B"), ("post_fifo", "C")],
          # a handler that fails: the exception belongs to the caller of next_rtc/complete_circuit, the event is consumed,
          # whatever is still queued stays queued
          "G": [("post_fifo", "A"), ("raise", "IndexError")], "H": [("raise", "RuntimeError")]}


def make_chart(family):
    """s0 handles every scripted signal internally; T toggles between s0 and its substate s1, whose entry action posts A
    (lifo) and whose exit action posts B (fifo) - posts made by entry/exit actions during a transition"""
    react = {(0, SIG[n]): ("H",) for n in SCRIPT}
    react[(0, SIG["T"])] = ("T", 1)
    react[(1, SIG["T"])] = ("T", 0)
    act = {(0, SIG[n]): list(a) for n, a in SCRIPT.items() if a}
    act[(1, charts.ENTRY)] = [("post_lifo", "A")]
    act[(1, charts.EXIT)] = [("post_fifo", "B")]
    t = Table((-1, 0), react=react, act=act, budget=100000)
    live = family == "spied+live"
    use(t, "spied" if live else family)
    h = charts.new_host("queued", **({"instrumented": False} if family == "plain" else {}))
    if live:        # live spy and live trace on (callbacks swallow the lines)
        h.live_spy = h.live_trace = True
        h.register_live_spy_callback(lambda line: None)
        h.register_live_trace_callback(lambda line: None)
    h.start_at(t.S[0])
    t.log.clear()
    # a second chart of the same class, constructed later and never used: whatever the first chart queues or defers is
    # its own (the sibling's queues must stay empty, and constructing it must not disturb the first chart)
    h.mc_sibling = charts.new_host("queued", **({"instrumented": False} if family == "plain" else {}))
    return t, h


def names(dq):
    return [e.signal_name for e in dq]


def apply_impl(t, h, op):
    """-> observation of one operation"""
    n0 = len(t.log)
    kind = op[0]
    ret = None
    try:
        ret = _apply_impl(h, op)
    except (IndexError, RuntimeError) as e:
        ret = "raised " + type(e).__name__
    # an event counts as dispatched where a state answers it (offers that merely bubble through s1 are not counted)
    disp = [x[0] for x in t.log[n0:] if x[0] in SIG and (x[1], SIG[x[0]]) in t.react]
    sib = h.mc_sibling
    leak = [names(sib.queue), names(sib.defer_queue)]
    return {"ret": ret, "dispatched": disp, "queue": names(h.queue), "deferred": names(h.defer_queue),
            "state": charts.config_of(h), "sibling": leak if (leak[0] or leak[1]) else None}


SAME = {}        # one Event object per signal, reused by the *_same operations (a client that keeps sending one object)


def same_ev(name):
    if name not in SAME:
        SAME[name] = ev(name)
    return SAME[name]


def _apply_impl(h, op):
    kind = op[0]
    ret = None
    if kind == "defer_same":
        h.defer(same_ev(op[1]))
    elif kind == "post_same":
        h.post_fifo(same_ev(op[1]))
    elif kind == "post_fifo":
        h.post_fifo(ev(op[1]))
    elif kind == "post_lifo":
        h.post_lifo(ev(op[1]))
    elif kind == "defer":
        h.defer(ev(op[1]))
    elif kind == "recall":
        r = h.recall()
        ret = None if r is None else r.signal_name
    elif kind == "next_rtc":
        ret = h.next_rtc()
    elif kind == "complete_circuit":
        h.complete_circuit()
    return ret


CUR = [0]       # the reference chart's current state (0 = s0, 1 = its substate s1), reset per path


def ref_step(q, dq, disp):
    e = q.pop(0)
    disp.append(e)
    if e == "T":
        if CUR[0] == 0:
            CUR[0] = 1
            q.insert(0, "A")        # entry action of s1
        else:
            CUR[0] = 0
            q.append("B")           # exit action of s1
        return
    for a in SCRIPT[e]:
        if a[0] == "post_fifo":
            q.append(a[1])
        elif a[0] == "post_lifo":
            q.insert(0, a[1])
        elif a[0] == "defer":
            dq.append(a[1])
        elif a[0] == "recall":
            if dq:
                q.append(dq.pop(0))
        elif a[0] == "raise":
            raise RefRaise(a[1])


class RefRaise(Exception):
    pass


def apply_ref(q, dq, op):
    kind = op[0]
    ret, disp = None, []
    try:
        ret = _apply_ref(q, dq, op, disp)
    except RefRaise as e:
        ret = "raised " + e.args[0]
    return {"ret": ret, "dispatched": disp, "queue": list(q), "deferred": list(dq), "state": CUR[0], "sibling": None}


def _apply_ref(q, dq, op, disp):
    kind = op[0]
    ret = None
    if kind == "defer_same":
        dq.append(op[1])
    elif kind == "post_same":
        q.append(op[1])
    elif kind == "post_fifo":
        q.append(op[1])
    elif kind == "post_lifo":
        q.insert(0, op[1])
    elif kind == "defer":
        dq.append(op[1])
    elif kind == "recall":
        if dq:
            ret = dq.pop(0)
            q.append(ret)
    elif kind == "next_rtc":
        if q:
            ref_step(q, dq, disp)
            ret = True
        else:
            ret = False
    elif kind == "complete_circuit":
        n = 0
        while q:
            ref_step(q, dq, disp)
            n += 1
            assert n < 1000
    return ret


def bfs(pid, alphabet, depth, family, first_ops):
    """BFS from the states reached by each op in first_ops; dedupe on (queue, deferred)."""
    seen = set()
    frontier = []
    for op in first_ops:
        frontier.append([op])
    n_trans = 0
    viol = []
    samples = []
    level = 1
    while frontier and level <= depth:
        nxt = []
        for path in frontier:
            t, h = make_chart(family)
            q, dq = [], []
            CUR[0] = 0
            bad = False
            for i, op in enumerate(path):
                o_impl = apply_impl(t, h, op)
                o_ref = apply_ref(q, dq, op)
                if i == len(path) - 1:
                    n_trans += 1
                    if o_impl != o_ref:
                        f = [k for k in o_ref if o_impl[k] != o_ref[k]][0]
                        key = "%s/%s/%s/family=%s" % (pid, op[0], f, family)
                        if sum(1 for v in viol if v[0] == key) < 2:
                            viol.append((key, "after %r: %s impl=%r ref=%r" % (path, f, o_impl[f], o_ref[f]),
                                         {"ops": [list(o) for o in path], "family": family}))
                        bad = True
            if bad:
                continue
            if isinstance(o_ref["ret"], str) and o_ref["ret"].startswith("raised"):
                # what the call does when a handler raises is checked (above); how the chart behaves *after* a handler
                # raised in the middle of a step is not constrained by any property (the processor's search cursor is
                # left where the exception struck): such paths are not extended
                continue
            state = (tuple(q), tuple(dq), CUR[0])
            if len(samples) < 1 and len(path) >= 4 and o_ref["dispatched"]:
                samples.append({"ops": [list(o) for o in path], "last": o_ref})
            if state in seen:
                continue
            seen.add(state)
            if level < depth:
                for op in alphabet:
                    nxt.append(path + [op])
        frontier = nxt
        level += 1
    return len(seen), n_trans, viol, samples


def run_bfs(res, pid, alphabet, depth, families=("spied", "plain", "spied+live")):
    tasks = []
    for fam in families:
        for op in alphabet:
            tasks.append((pid, alphabet, depth, fam, [op]))
    out = pmap(lambda t: bfs(*t), tasks)
    for o in out:
        for key, what, w in o[2]:
            res.add(Violation(key, what, w))
    res.coverage = {"states": sum(o[0] for o in out), "transitions": sum(o[1] for o in out),
                    "traces_validated_against_impl": sum(o[1] for o in out),
                    "evaluations": sum(o[1] for o in out), "distinct_nontrivial": sum(o[0] for o in out),
                    "samples": [s for o in out for s in o[3]][:3], "exhaustive": True}
    return out


def replay(pid, witness):
    from mc.common import Result
    res = Result(pid)
    t, h = make_chart(witness["family"])
    q, dq = [], []
    CUR[0] = 0
    for op in witness["ops"]:
        op = tuple(op)
        a, b = apply_impl(t, h, op), apply_ref(q, dq, op)
        print(op, "impl", a, "ref", b)
        if a != b:
            f = [k for k in b if a[k] != b[k]][0]
            res.add(Violation("%s/%s/%s/family=%s" % (pid, op[0], f, witness["family"]), "mismatch", witness))
            break
    return res
