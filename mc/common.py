"""Shared plumbing: loading miros from the tree under test, evidence,
known findings, violation reporting, replay artefacts, worker pool."""
import os, sys, json, time, hashlib, atexit, shutil, tempfile, signal, traceback
import multiprocessing as mp

VERIF = os.path.dirname(os.path.dirname(os.path.abspath(__file__)))
REPO = os.environ.get("MIROS_REPO", "/repo")
_loaded = False


def load_miros():
    """Import miros from the working tree under test (never from a stale pyc)."""
    global _loaded
    if _loaded:
        return
    d = scratch_dir()
    sys.pycache_prefix = os.path.join(d, "pycache")
    sys.dont_write_bytecode = True
    sys.path.insert(0, REPO)
    import miros  # noqa
    got = os.path.dirname(os.path.dirname(os.path.abspath(miros.__file__)))
    if os.path.realpath(got) != os.path.realpath(REPO):
        print("TOOLING-ERROR miros imported from %s, wanted %s" % (got, REPO))
        sys.exit(2)
    _loaded = True


_SCRATCH = [None, None]


def scratch_dir():
    """one scratch directory per check run, made by the process that starts the run (forked workers inherit the path);
    removed by cleanup_scratch() - the CLI ends with os._exit, so atexit handlers would never run"""
    if _SCRATCH[0] is None:
        _SCRATCH[0] = tempfile.mkdtemp(prefix="mc-run-")
        _SCRATCH[1] = os.getpid()
    return _SCRATCH[0]


def cleanup_scratch():
    if _SCRATCH[0] is not None and _SCRATCH[1] == os.getpid():
        shutil.rmtree(_SCRATCH[0], True)
        _SCRATCH[0] = None


def seed():
    try:
        return int(os.environ.get("VERIF_SEED", "0"))
    except ValueError:
        return 0


class ToolingError(Exception):
    """The machinery itself is broken (never a pass, never a VIOLATION)."""


class BudgetExceeded(BaseException):
    """A watchdog tripped: the code under test did not terminate within the
    step budget.  BaseException so that bare `except Exception` cannot eat it."""


class Violation:
    """One failed oracle clause on one explored case."""
    __slots__ = ("key", "what", "witness")

    def __init__(self, key, what, witness):
        self.key, self.what, self.witness = key, what, witness

    def to_json(self):
        return {"key": self.key, "what": self.what, "witness": self.witness}

    @staticmethod
    def from_json(d):
        return Violation(d["key"], d["what"], d["witness"])


def known_findings():
    p = os.path.join(VERIF, "known_findings.json")
    if not os.path.exists(p):
        return []
    with open(p) as f:
        return json.load(f)["findings"]


def jsonable(x):
    if isinstance(x, (str, int, float, bool)) or x is None:
        return x
    if isinstance(x, dict):
        return {str(k): jsonable(v) for k, v in x.items()}
    if isinstance(x, (list, tuple, set, frozenset)):
        return [jsonable(v) for v in x]
    return repr(x)


class Result:
    """What a property check returns to the CLI."""

    def __init__(self, pid, level="model_checking"):
        self.pid = pid
        self.level = level
        self.coverage = {}
        self.assumptions = []
        self.violations = []   # list[Violation]
        self.notes = []

    def add(self, v):
        self.violations.append(v)


def finish(res, tier, t0, replay_mode=False):
    """Classify violations against known_findings.json, write evidence and
    replay artefacts, print the verdict lines, return the exit status."""
    pid = res.pid
    known = {f["key"]: f for f in known_findings()
             if f["property"] == pid and f.get("status") == "known"}
    by_key = {}
    for v in res.violations:
        by_key.setdefault(v.key, []).append(v)
    status = 0
    kf_lines, viol_lines = [], []
    for key in sorted(by_key):
        vs = by_key[key]
        if key in known:
            kf_lines.append("KNOWN-FINDING: property=%s key=%s %s (%d witnesses this run; first: %s)" % (
                pid, key, known[key]["what"], len(vs), json.dumps(jsonable(vs[0].witness))[:300]))
        else:
            status = 1
            h = hashlib.sha1(key.encode()).hexdigest()[:10]
            path = os.path.join(os.environ.get("VERIF_EVIDENCE_DIR") or os.path.join(VERIF, "replays"), "%s-%s.json" % (pid, h))
            if not replay_mode:
                os.makedirs(os.path.dirname(path), exist_ok=True)
                with open(path, "w") as f:
                    json.dump({"property": pid, "key": key, "what": vs[0].what,
                               "witness": jsonable(vs[0].witness),
                               "n_witnesses": len(vs)}, f, indent=1)
            if replay_mode:
                path = replay_mode if isinstance(replay_mode, str) else path
            viol_lines.append("VIOLATION property=%s replay=%s key=%s :: %s" % (pid, path, key, vs[0].what))
    for l in kf_lines:
        print(l)
    for l in viol_lines:
        print(l)
    if not replay_mode:
        cov = dict(res.coverage)
        cov.setdefault("exhaustive", True)
        ev = {"property_id": pid, "tier": tier, "seed": seed(), "level": res.level,
              "coverage": jsonable(cov), "assumptions": res.assumptions,
              "wall_s": round(time.time() - t0, 3),
              "violations": sum(len(v) for k, v in by_key.items() if k not in known),
              "known_findings_seen": sorted(k for k in by_key if k in known),
              "repo": REPO}
        evd = os.environ.get("VERIF_EVIDENCE_DIR") or os.path.join(VERIF, "evidence")
        os.makedirs(evd, exist_ok=True)
        tmp = os.path.join(evd, ".%s.json.tmp" % pid)
        with open(tmp, "w") as f:
            json.dump(ev, f, indent=1)
        os.replace(tmp, os.path.join(evd, "%s.json" % pid))
    c = res.coverage
    print("%s %s tier=%s states=%s transitions=%s evaluations=%s distinct_nontrivial=%s exhaustive=%s wall=%.1fs" % (
        pid, "OK" if status == 0 else "FAIL", tier, c.get("states"), c.get("transitions"),
        c.get("evaluations"), c.get("distinct_nontrivial"), c.get("exhaustive", True), time.time() - t0))
    return status


# ---------------------------------------------------------------- pool

def ncpu():
    try:
        n = int(os.environ.get("VERIF_JOBS", "0"))
    except ValueError:
        n = 0
    return n or min(16, os.cpu_count() or 1)


def _worker(fn, tasks, tq, rq, cpu=None):
    if cpu is not None:
        try:        # one core per worker: baton hand-overs between its threads stay core-local
            os.sched_setaffinity(0, {cpu})
        except OSError:
            pass
    while True:
        idx = tq.get()
        if idx is None:
            return
        try:
            rq.put((idx, "ok", fn(tasks[idx])))
        except BaseException as e:  # noqa
            rq.put((idx, "err", "%s\n%s" % (repr(e), traceback.format_exc())))


def pmap(fn, tasks, jobs=None, timeout=3000):
    """Run fn(task) for every task in long-lived forked workers (fn and tasks are
    inherited by fork, results must be picklable).  Tasks are handed out in list
    order, results come back in list order.  A worker that dies or the pool
    exceeding the wall-clock watchdog is a ToolingError."""
    tasks = list(tasks)
    jobs = min(jobs or ncpu(), len(tasks))
    if jobs <= 1:
        return [fn(t) for t in tasks]
    ctx = mp.get_context("fork")
    tq, rq = ctx.Queue(), ctx.Queue()
    for i in range(len(tasks)):
        tq.put(i)
    for _ in range(jobs):
        tq.put(None)
    try:
        cpus = sorted(os.sched_getaffinity(0))
    except AttributeError:
        cpus = [None]
    procs = [ctx.Process(target=_worker, args=(fn, tasks, tq, rq, cpus[i % len(cpus)]), daemon=True)
             for i in range(jobs)]
    for p in procs:
        p.start()
    results = [None] * len(tasks)
    done = 0
    t_end = time.time() + timeout
    try:
        while done < len(tasks):
            try:
                idx, st, r = rq.get(timeout=1.0)
            except Exception:
                if time.time() > t_end:
                    raise ToolingError("worker pool watchdog: %d tasks unfinished" % (len(tasks) - done))
                for p in procs:
                    if not p.is_alive() and p.exitcode not in (0, None):
                        raise ToolingError("a worker died with exit code %s" % p.exitcode)
                continue
            if st == "err":
                raise ToolingError("worker for task %d raised: %s" % (idx, r))
            results[idx] = r
            done += 1
    finally:
        for p in procs:
            if p.is_alive() and done < len(tasks):
                p.kill()
        for p in procs:
            p.join(5)
    return results


def chunks(seq, n):
    seq = list(seq)
    k = max(1, (len(seq) + n - 1) // n)
    return [seq[i:i + k] for i in range(0, len(seq), k)]
