"""Sweep driver for the instrumentation properties (C18-C21): enumerate chart
specs per forest, run every spec under every variant, apply a checker."""
from mc.common import Violation, pmap, ncpu
from mc import hsmrun, instr, forests as F
from mc.hsmcheck import split, _cost


def vname(var):
    return "%s/%s%s%s%s" % (var["host"], var["family"], "/live_spy" if var.get("live_spy") else "",
                            "/live_trace" if var.get("live_trace") else "", "/" + var["drive"] if var.get("drive") else "")


def _work(task):
    pid, gen, parents, variants, checker_name, extra = task
    checker = CHECKERS[checker_name]
    n_runs = n_steps = n_nontrivial = 0
    states = set()
    viol = []
    sample = None
    for parent in parents:
        for base, nontrivial in gen(parent):
            spec = hsmrun.norm(base)
            if "act" in base:
                spec["act"] = base["act"]
            ref = instr.ref_steps(spec) if not base.get("act") else None
            runs = []
            for var in variants:
                run = instr.run_variant(spec, var)
                runs.append(run)
                n_runs += 1
                n_steps += len(run["steps"])
                for key, what in checker(spec, var, run, ref, runs[0], extra):
                    key = "%s/%s" % (pid, key)
                    if sum(1 for v in viol if v["key"] == key) < 2:
                        w = dict(hsmrun.dump(spec), variant=var, checker=checker_name)
                        if "act" in spec:
                            w["act"] = {"%d,%s" % k: [list(x) for x in v] for k, v in spec["act"].items()}
                        viol.append(Violation(key, "%s: %s" % (vname(var), what), w).to_json())
            for o in (runs[0]["steps"] if runs else ()):
                states.add((parent, tuple(sorted(spec["init"].items())), o["state"]))
            if nontrivial:
                n_nontrivial += 1
                if sample is None:
                    sample = {"spec": hsmrun.dump(spec), "variant": variants[-1],
                              "last_step": {k: v for k, v in (runs[-1]["steps"][-1] if runs[-1]["steps"] else {}).items()
                                            if k in ("spy_rtc", "trace_new", "live_spy", "live_trace", "log", "state")}}
    return n_runs, n_steps, viol, len(states), n_nontrivial, sample


def sweep(res, plans):
    """plans: [(gen, forests, variants, checker_name, extra)]"""
    tasks = []
    jobs = ncpu() * 3
    for gen, fl, variants, checker_name, extra in plans:
        for b in split(list(fl), jobs):
            tasks.append((sum(_cost(f) for f in b) * len(variants), (res.pid, gen, b, variants, checker_name, extra)))
    tasks.sort(key=lambda t: -t[0])
    out = pmap(_work, [t[1] for t in tasks])
    cov = res.coverage
    cov["evaluations"] = cov.get("evaluations", 0) + sum(o[0] for o in out)
    cov["traces_validated_against_impl"] = cov["evaluations"]
    cov["transitions"] = cov.get("transitions", 0) + sum(o[1] for o in out)
    cov["states"] = cov.get("states", 0) + sum(o[3] for o in out)
    cov["distinct_nontrivial"] = cov.get("distinct_nontrivial", 0) + sum(o[4] for o in out)
    cov.setdefault("samples", [])
    cov["samples"] += [instr_json(o[5]) for o in out if o[5]][:2]
    for o in out:
        for v in o[2]:
            res.add(Violation.from_json(v))
    return out


def instr_json(x):
    from mc.common import jsonable
    return jsonable(x)


# ------------------------------------------------------------------ checkers

def ck_behaviour(spec, var, run, ref, base_run, extra):
    out = []
    if ref is not None:
        out += instr.check_behaviour(spec, var, run, ref)
    else:
        # charts whose handlers post to themselves: no single-step reference, compare with the first variant
        tag = "host=%s/family=%s" % (var["host"], var["family"])
        if run["exception"]:
            return [("exception/%s" % tag, "raised %s %s" % (run["exception"], run.get("where", "")))]
        if base_run is not run and not base_run["exception"]:
            a = [(o["log"], o["state"]) for o in run["steps"]]
            b = [(o["log"], o["state"]) for o in base_run["steps"]]
            if a != b:
                out.append(("actions/%s" % tag, "behaviour %r differs from the first configuration's %r" % (a, b)))
    return out


def ck_spy(spec, var, run, ref, base_run, extra):
    return instr.check_spy(spec, var, run, var.get("rings"))


def ck_trace(spec, var, run, ref, base_run, extra):
    return instr.check_trace(spec, var, run, var.get("rings"))


def ck_live(spec, var, run, ref, base_run, extra):
    return instr.check_live(spec, var, run)


CHECKERS = {"behaviour": ck_behaviour, "spy": ck_spy, "trace": ck_trace, "live": ck_live}


# ------------------------------------------------------------------ chart families with handler scripts

ACTION_LISTS = [
    [("scribble", "scrib-1")],
    [("post_fifo", "B")],
    [("post_lifo", "C"), ("post_fifo", "B")],
    [("defer", "B"), ("recall",)],
    [("recall",), ("scribble", "scrib-2")],
    [("defer", "A"), ("defer", "B"), ("recall",), ("post_lifo", "C")],
    [("current_state",)],
    [("scribble", "before"), ("clear_spy",), ("scribble", "after")],
    [("scribble", "before"), ("current_state",), ("post_fifo", "B")],
]


def gen_act(parent):
    """event A answered (handled or transition) by a state on the active path whose handler performs an action list;
    the same list is also hung on an entry / exit / init handler reached by the transition.  B and C are handled
    by the outermost state (so self-posted events are dispatched in later steps)."""
    n = len(parent)
    for c in range(n):
        pc = F.path(parent, c)
        root = pc[-1]
        for S in pc:
            for ai, acts in enumerate(ACTION_LISTS):
                for ans in (("H",), ("T", c), ("T", root)):
                    base = {(root, "B"): ("H",), (root, "C"): ("H",)}
                    react = dict(base)
                    react[(S, "A")] = ans
                    for where in ("signal", "entry", "exit", "init"):
                        if where != "signal" and ans[0] != "T":
                            continue
                        if where == "signal":
                            act = {(S, "A"): acts}
                        else:
                            act = {(ans[1], where): acts}
                        yield ({"parent": parent, "init": {}, "react": react, "act": act, "start": c,
                                "events": ["A", "A"]}, True)



def renamed(gen, mapping):
    """the same scenarios with user signals renamed (e.g. A -> U_SIGNAL: a user signal that ends like the built-in ones)"""
    def g(parent):
        for base, nontrivial in gen(parent):
            b = dict(base)
            b["react"] = {(s_, mapping.get(n, n)): v for (s_, n), v in base["react"].items()}
            b["events"] = [mapping.get(n, n) for n in base["events"]]
            yield b, nontrivial
    g.__name__ = "renamed_" + getattr(gen, "__name__", "gen")
    return g


def _ren_c01(parent):
    from mc.props import c01
    return renamed(c01.gen, {"A": "U_SIGNAL"})(parent)


def _ren_c02(parent):
    from mc.props import c02
    return renamed(c02.gen, {"A": "U_SIGNAL"})(parent)
