"""Helpers shared by Engine-B harnesses that host real miros active objects."""
from collections import deque
from mc import sched, aoenv
from miros.event import signals, return_status, Event
import miros.hsm as hsm
import miros.activeobject as ao_mod

USER = ["A", "B", "C", "D", "E", "F", "G", "H"]
for _n in USER:
    signals.append(_n)
ENTRY, EXIT, INIT = signals.ENTRY_SIGNAL, signals.EXIT_SIGNAL, signals.INIT_SIGNAL
HANDLED, SUPER = return_status.HANDLED, return_status.SUPER


class LogDeque(deque):
    """a deque that writes every mutating operation into the scheduler's linearised log"""

    def _note(self, op, item=None):
        s = sched.ACTIVE
        if s is not None:
            s.note("dq", self.tag, op, label_of(item))

    def append(self, x):
        self._note("append", x)
        deque.append(self, x)

    def appendleft(self, x):
        self._note("appendleft", x)
        deque.appendleft(self, x)

    def popleft(self):
        x = deque.popleft(self)
        self._note("popleft", x)
        return x

    def pop(self):
        x = deque.pop(self)
        self._note("pop", x)
        return x

    def rotate(self, n=1):
        self._note("rotate%d" % n)
        deque.rotate(self, n)

    def clear(self):
        self._note("clear")
        deque.clear(self)


def label_of(e):
    if e is None:
        return None
    p = getattr(e, "payload", None)
    if isinstance(p, str):
        return "%s/%s" % (e.signal_name, p)
    return getattr(e, "signal_name", repr(e))


def logged_deque(tag, maxlen):
    d = LogDeque(maxlen=maxlen)
    d.tag = tag
    return d


def make_state(name="idle", script=None, spied=True):
    """a single-state chart: every user signal is handled internally after running its script.
    script: {signame: [(op, arg...), ...]}; ops: post_fifo/post_lifo X, point, stop, publish X [prio],
    subscribe X kind, note text"""
    script = script or {}

    def idle(chart, e):
        sig = e.signal
        if sig == ENTRY or sig == EXIT or sig == INIT:
            for a in script.get({ENTRY: "ENTRY_SIGNAL", EXIT: "EXIT_SIGNAL", INIT: "INIT_SIGNAL"}[sig], ()):
                if a[0] == "call":
                    a[1](chart, e)
                elif a[0] == "post_fifo":
                    chart.post_fifo(Event(signal=a[1], payload=a[2] if len(a) > 2 else None))
                elif a[0] == "post_lifo":
                    chart.post_lifo(Event(signal=a[1], payload=a[2] if len(a) > 2 else None))
                elif a[0] == "subscribe":
                    chart.subscribe(Event(signal=a[1]), queue_type=a[2] if len(a) > 2 else None)
                elif a[0] == "publish":
                    chart.publish(Event(signal=a[1], payload=a[2] if len(a) > 2 else None))
            return HANDLED
        if sig > 10:
            s = sched.ACTIVE
            lab = label_of(e)
            if s is not None:
                s.note("rtc-begin", chart.name, lab)
            for a in script.get(e.signal_name, ()):
                op = a[0]
                if op == "post_fifo":
                    chart.post_fifo(Event(signal=a[1], payload=a[2] if len(a) > 2 else None))
                elif op == "post_lifo":
                    chart.post_lifo(Event(signal=a[1], payload=a[2] if len(a) > 2 else None))
                elif op == "point":
                    s.point("in-handler")
                elif op == "stop":
                    chart.stop()
                elif op == "publish":
                    chart.publish(Event(signal=a[1], payload=a[2] if len(a) > 2 else None),
                                  priority=a[3] if len(a) > 3 else None)
                elif op == "subscribe":
                    chart.subscribe(Event(signal=a[1]), queue_type=a[2] if len(a) > 2 else None)
                elif op == "call":
                    a[1](chart, e)
                else:
                    raise AssertionError(op)
            if s is not None:
                s.note("rtc-end", chart.name, lab)
            return HANDLED
        chart.temp.fun = chart.top
        return SUPER
    idle.__name__ = name
    idle.__qualname__ = name
    return hsm.spy_on(idle) if spied else idle


class QueueSize:
    """context manager: HsmWithQueues.QUEUE_SIZE reduced for one execution"""

    def __init__(self, n):
        self.n = n

    def __enter__(self):
        self.old = hsm.HsmWithQueues.QUEUE_SIZE
        if self.n:
            hsm.HsmWithQueues.QUEUE_SIZE = self.n

    def __exit__(self, *a):
        hsm.HsmWithQueues.QUEUE_SIZE = self.old


def new_ao(name, state, start=True, klass=None, instrumented=None):
    """construct (and start) a real ActiveObject with a logging deque"""
    klass = klass or ao_mod.ActiveObject
    a = klass(name=name) if instrumented is None else klass(name=name, instrumented=instrumented)
    a.locking_deque.deque = logged_deque(name, a.locking_deque.deque.maxlen)
    if start:
        a.start_at(state)
    return a


def ao_codes(extra=()):
    """the default racy set for active-object harnesses: everything in miros.activeobject plus
    the queue methods of HsmWithQueues (not miros.event: Event construction is thread-local here)"""
    codes = sched.code_objects_of(ao_mod)
    H = hsm.HsmWithQueues
    for n in ("post_fifo", "post_lifo", "defer", "recall", "next_rtc", "complete_circuit"):
        codes += sched.code_objects_of(vars(H)[n])
    codes += sched.code_objects_of(*[f for f in (getattr(hsm, "append_fifo_to_spy", None),) if f])
    out, seen = [], set()
    for c in list(codes) + list(extra):
        if c not in seen and "namedtuple" not in c.co_qualname:
            seen.add(c)
            out.append(c)
    return out


def pick_codes(patterns, extra=()):
    """code objects of the default racy set whose qualified name starts with one of the patterns"""
    out = [c for c in ao_codes(extra) if any(c.co_qualname.startswith(p) for p in patterns)]
    missing = [p for p in patterns if not any(c.co_qualname.startswith(p) for c in out)]
    if missing:
        from mc.common import ToolingError
        raise ToolingError("racy-set patterns match nothing (miros refactored?): %r" % (missing,))
    return out


QUEUE_CORE = ["LockingDeque.", "ActiveObject.run_event", "HsmWithQueues.next_rtc", "HsmWithQueues.post_fifo",
              "HsmWithQueues.post_lifo"]


# where the wake-up token protocol lives (instruction-granularity harnesses)
TOKEN_PROTOCOL = ["LockingDeque.", "ActiveObject.run_event"]


def thread_states(s):
    return [(t.tid, t.name, t.label, t.finished) for t in s.threads]


def dispatch_log(s, name=None):
    return [x[4] for x in s.log if len(x) > 4 and x[3] == "rtc-begin" and (name is None or x[4 - 0] is not None and x[4] == x[4])
            ] if False else [x[5] for x in s.log if x[3] == "rtc-begin" and (name is None or x[4] == name)]


def dq_ops(s, tag):
    return [(x[0], x[1], x[2], x[5], x[6]) for x in s.log if x[3] == "dq" and x[4] == tag]
