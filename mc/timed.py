"""Shared Engine-B harness for timed sources (C10, C11, C31) on a real
ActiveObject with a virtual clock."""
from mc.common import Result, Violation
from mc import sched, aoenv, explore, aoharness as H
from miros.event import Event
import miros.activeobject as ao_mod

CODES = H.QUEUE_CORE + ["ActiveObject.__post_event", "ActiveObject.cancel_event"]


def expected_instants(period, times, deferred, horizon, at=0.0):
    out = []
    k = 1 if deferred else 0
    while True:
        t = at + period * k
        if t > horizon + 1e-9:
            break
        if times != 0 and len(out) >= times:
            break
        out.append(t)
        k += 1
    return out


class TimedHarness:
    name = "timed"
    horizon = 6000
    fair_k = 80
    lock_points = False
    # several timers wake at the same instant: choosing a non-default successor at a blocking point is not free
    # here (3 such choices = 1 deviation), otherwise the cost-0 orders multiply without bound
    free_cost = 0.34
    time_horizon = 2.0

    def __init__(self, mode="line", codes=None):
        self.mode, self._ready = mode, False
        self.codes = codes or CODES

    def setup_process(self):
        if not self._ready:
            aoenv.install()
            sched.monitor(H.pick_codes(self.codes), self.mode)
            self._ready = True

    # hooks for subclasses ------------------------------------------------
    def make_ao(self, s, p):
        klass = None
        if p.get("sub_qsize"):      # a subclass with a small QUEUE_SIZE: the capacity of the tracked-source list
            klass = type("SmallAO", (ao_mod.ActiveObject,), {"QUEUE_SIZE": p["sub_qsize"]})
        with H.QueueSize(p.get("qsize")):
            return H.new_ao("ao", H.make_state(), klass=klass)

    def actions(self, s, p, ao, ids):
        """runs in the main thread inside the window after the sources were started"""

    def body(self, s, p):
        aoenv.reset()
        pre = bool(p.get("pre_start"))
        if pre:
            # the timed sources are created before start_at: the object's own thread does not exist yet
            with H.QueueSize(p.get("qsize")):
                ao = H.new_ao("ao", H.make_state(), start=False)
        else:
            ao = self.make_ao(s, p)
            s.settle()
        ld = ao.locking_deque
        s.fingerprint = lambda: (tuple(H.label_of(x) for x in ld.deque), ld.locking_queue._qsize(), s.now,
                                 len(ao.posted_events_queue))
        if not pre:
            s.open_window()
        w0 = 0 if pre else s.steps
        ids, raised = [], []
        racer = p.get("racer")
        for i, src in enumerate(p["sources"]):
            if racer and racer["before"] == i:
                # another thread makes a cancel call that matches nothing while this source is posted
                go = sched.CEvent()

                def race():
                    go.set()
                    if racer["op"] == "post_timed":
                        # the other thread starts a timed source of its own at the same moment
                        try:
                            rid = ao.post_fifo(Event(signal="R", payload="racer"), period=0.5, times=0, deferred=True)
                            s.note("racer-source-started", str(rid))
                        except ao_mod.ActiveObjectOutOfPostedEventResources:
                            s.note("racer-source-rejected")
                    elif racer["op"] == "cancel_unknown":
                        ao.cancel_event(uuid="no-such-source")
                    else:
                        ao.cancel_events(Event(signal="NEVER_POSTED"))
                    s.note("racer-done", racer["op"])
                sched.CThread(target=race, name="racer").start()
                go.wait()
            if src.get("at"):       # a source started later: the caller sleeps until that virtual instant
                d = src["at"] - s.now
                if d > 0:
                    sched.VTime.sleep(d)
            e = Event(signal=src["sig"], payload="s%d" % i)
            try:
                f = ao.post_fifo if src.get("kind", "fifo") == "fifo" else ao.post_lifo
                ids.append(f(e, period=src["period"], times=src["times"], deferred=src["deferred"]))
                s.note("source-started", i)
            except ao_mod.ActiveObjectOutOfPostedEventResources:
                ids.append(None)
                raised.append(i)
                s.note("source-rejected", i)
        if pre:
            if p.get("start_delay"):
                sched.VTime.sleep(p["start_delay"])     # the sources tick for a while before the object is started
            ao.start_at(H.make_state())
            s.open_window()
        extra = self.actions(s, p, ao, ids) or {}
        s.settle()
        ops = [x for x in H.dq_ops(s, "ao") if x[0] >= w0]
        obs = {"appends": [(x[0], x[1], x[3], x[4]) for x in ops if x[3] in ("append", "appendleft")],
               "dispatched": H.dispatch_log(s, "ao"),
               "tracked": [(pe.signal_name, str(pe.uuid)) for pe in ao.posted_events_queue],
               "running": {str(pe.uuid): bool(pe.task_run_event._flag) for pe in ao.posted_events_queue},
               "ids": [None if i is None else str(i) for i in ids],
               "raised": raised, "notes": [(x[0], x[1]) + tuple(x[3:]) for x in s.log if x[3] in ("cancel-returned", "source-rejected", "racer-source-started",
                                                                                "racer-source-rejected", "racer-done")],
               "thread_exceptions": [x[:3] for x in s.thread_exceptions], "end_time": s.now}
        obs["latency"] = s.clock_deviations > 0
        obs.update(extra)
        return obs

    def on_abort(self, s, p):
        return {"threads": [x for x in s.snapshot if not x[2]][:8]}


def schedule_violations(pid, p, o, cancelled=(), rejected=()):
    """compare each (uncancelled, accepted) source's appends with the C10 schedule"""
    out = []
    H_ = p.get("time_horizon", 2.0)
    for i, src in enumerate(p["sources"]):
        if i in cancelled or i in rejected:
            continue
        lab = "%s/s%d" % (src["sig"], i)
        mine = [(st, now, op) for (st, now, op, l) in o["appends"] if l == lab]
        want = expected_instants(src["period"], src["times"], src["deferred"], H_, src.get("at", 0.0))
        got = [now for (_, now, _) in mine]
        wop = "append" if src.get("kind", "fifo") == "fifo" else "appendleft"
        if o.get("latency"):
            # the schedule let time pass while the timer thread was runnable: posts may be late, never early,
            # never closer together than the period, and the count still has to be right
            ok = len(got) <= len(want) and all(g >= w - 1e-9 for g, w in zip(got, want)) and \
                all(b - a >= src["period"] - 1e-9 for a, b in zip(got, got[1:]))
            if src["times"] != 0 and len(got) < len(want):
                # fewer posts than the latency-free schedule: fine as long as the source is still at it (its run flag is
                # set: the rest comes later than the horizon), a violation if it gave up
                sid = o["ids"][i] if i < len(o.get("ids", [])) else None
                ok = ok and bool(o.get("running", {}).get(sid))
            if not ok:
                out.append(("%s/schedule-with-latency/times=%s/deferred=%s" % (pid, src["times"] if src["times"] in (0, 1) else "n", src["deferred"]),
                            "source %d (period %s, times %s, deferred %s) posted at %r; without latency %r" % (
                                i, src["period"], src["times"], src["deferred"], got, want)))
        elif got != want:
            out.append(("%s/schedule/times=%s/deferred=%s" % (pid, src["times"] if src["times"] in (0, 1) else "n", src["deferred"]),
                        "source %d (period %s, times %s, deferred %s) posted at virtual times %r, expected %r" % (
                            i, src["period"], src["times"], src["deferred"], got, want)))
        elif any(op != wop for (_, _, op) in mine):
            out.append(("%s/queue-end/%s" % (pid, src.get("kind", "fifo")), "source %d (%s) used %r" % (i, src.get("kind", "fifo"), [op for (_, _, op) in mine])))
    return out
