"""Engine A, instrumentation layer (C18-C21): run one chart spec under one
*variant* (host class, decorator family, live flags, drive mode, clock script,
ring sizes) and collect, per run-to-completion step, everything the
instrumentation properties talk about: action log, state, per-step spy, new
trace records, live spy / live trace callbacks - together with the harness's
own nested invocation log from which the expected spy and trace are built.

The expected values never come from a re-implementation of the processor's
search: the spy oracle is the list of handler invocations the processor
actually made (logged by the handlers themselves), the trace oracle is 'some
offer of the event returned TRAN' plus the configuration before/after."""
import datetime as _dt
from mc import charts, refmodel, hsmrun
from mc.common import BudgetExceeded
from mc.charts import Table, use, SIG, NAMES, ev
import miros.hsm as hsm
from miros.event import signals, return_status

HANDLED, TRAN = return_status.HANDLED, return_status.TRAN
REFLECT = signals.REFLECTION_SIGNAL
FMT = "%Y-%m-%d %H:%M:%S.%f"
BASE = _dt.datetime(2024, 2, 29, 23, 59, 59, 999990)


class Clock:
    """stand-in for `datetime.datetime` as miros.hsm uses it (now, strftime), driven by a script:
    'inc' every call advances 1 us; 'everyN' advances on every N-th call; 'step' constant within a step (the
    harness ticks it between steps); 'step2' / 'step3' tick every 2nd / 3rd step; 'frozen' never advances"""
    script = "inc"
    calls = 0
    ticks = 0
    steps = 0

    @classmethod
    def reset(cls, script):
        cls.script, cls.calls, cls.ticks, cls.steps = script, 0, 0, 0

    @classmethod
    def now(cls, tz=None):
        cls.calls += 1
        s = cls.script
        if s == "inc":
            cls.ticks += 1
        elif s.startswith("every"):
            if cls.calls % int(s[5:]) == 0:
                cls.ticks += 1
        return BASE + _dt.timedelta(microseconds=cls.ticks)

    @classmethod
    def next_step(cls):
        cls.steps += 1
        s = cls.script
        if s == "step" or (s == "step2" and cls.steps % 2 == 0) or (s == "step3" and cls.steps % 3 == 0):
            cls.ticks += 1

    @staticmethod
    def strftime(d, fmt):
        return _dt.datetime.strftime(d, fmt)


CLOCKS = ["inc", "every2", "every8", "every64", "step", "step2", "step3", "frozen"]


def install_clock(script):
    Clock.reset(script)
    hsm.stdlib_datetime = Clock


class Rings:
    """context manager: ring buffer sizes reduced for one run (read by miros at construction)"""

    def __init__(self, sizes):
        self.sizes = sizes

    def __enter__(self):
        P = hsm.HsmEventProcessor
        self.old = (P.SPY_RING_BUFFER_SIZE, P.TRC_RING_BUFFER_SIZE, P.RTC_RING_BUFFER_SIZE)
        if self.sizes:
            P.SPY_RING_BUFFER_SIZE, P.TRC_RING_BUFFER_SIZE, P.RTC_RING_BUFFER_SIZE = self.sizes

    def __exit__(self, *a):
        P = hsm.HsmEventProcessor
        P.SPY_RING_BUFFER_SIZE, P.TRC_RING_BUFFER_SIZE, P.RTC_RING_BUFFER_SIZE = self.old


def signame(n):
    return signals.name_for_signal(n)


def expected_spy(raw):
    """spy lines implied by the handlers' own invocation log"""
    out = []
    for r in raw:
        k = r[0]
        if k == "call":
            if r[1] != REFLECT:
                out.append("%s:%s" % (signame(r[1]), NAMES[r[2]]))
        elif k == "ret":
            if r[1] != REFLECT and r[1] > 10 and r[3] == HANDLED:
                out.append("%s:%s:HOOK" % (signame(r[1]), NAMES[r[2]]))
        elif k == "act":
            op = r[1]
            if op == "post_fifo":
                out.append("POST_FIFO:%s" % r[2])
            elif op == "post_lifo":
                out.append("POST_LIFO:%s" % r[2])
            elif op == "defer":
                out.append("POST_DEFERRED:%s" % r[2])
            elif op == "recall":
                if r[2] is not None:
                    out.append("RECALL:%s" % r[2])
                    out.append("POST_FIFO:%s" % r[2])
            elif op == "scribble":
                out.append(r[2])
            # 'current_state' leaves no line: the spied leaf state answers the reflection signal without logging
    return out


def fmt_trace(rec, name):
    """our own rendering of one trace record (datetime, start, signal, end)"""
    d, a, sig, b = rec
    return "[%s] [%s] e->%s() %s->%s\n" % (_dt.datetime.strftime(d, FMT), "None" if name is None else name,
                                           "start_at" if sig is None else sig, a, b)


def build(spec, var, budget=20000):
    react = {(i, SIG[n]): v for (i, n), v in spec["react"].items()}
    act = {}
    for (i, n), a in (spec.get("act") or {}).items():
        key = (i, SIG[n]) if n in SIG else (i, {"entry": charts.ENTRY, "exit": charts.EXIT, "init": charts.INIT}[n])
        act[key] = [tuple(x) for x in a]
    t = Table(spec["parent"], init=spec["init"], react=react, style=spec.get("style"), act=act, budget=budget)
    t.raw = []
    use(t, var["family"])
    kw = {}
    host = var["host"]
    if host == "queued_off" or (host == "queued" and var["family"].startswith("plain")):
        kw["instrumented"] = False
    h = charts.new_host(host, **kw)
    if host.startswith("queued"):
        if var.get("chart_name", "c") is not None:
            h.name = var.get("chart_name", "c")
        h.live_spy = bool(var.get("live_spy"))
        h.live_trace = bool(var.get("live_trace"))
    return t, h


def run_variant(spec, var, budget=20000):
    """-> {'steps': [obs...], 'spy_full':..., 'trace_text':..., 'exception': ...}"""
    install_clock(var.get("clock", "inc"))
    with Rings(var.get("rings")):
        t, h = build(spec, var, budget)
    host = var["host"]
    queued = host.startswith("queued")
    live_spy, live_trace = [], []
    if queued:
        h.register_live_spy_callback(live_spy.append)
        h.register_live_trace_callback(live_trace.append)
    out = {"steps": [], "exception": None}
    seen_trace = []

    def observe(kind, prev_cfg):
        instr = bool(getattr(h, "instrumented", False)) and hasattr(h, "rtc")
        try:
            cur = charts.config_of(h)
        except Exception:  # noqa
            cur = "?"
        o = {"kind": kind, "log": [x for x in t.log if x[0] != "empty"], "state": cur, "prev": prev_cfg,
             "state_name": getattr(h, "state_name", None), "ignored": h.event.ignored, "instrumented": instr,
             "raw": list(t.raw), "queue_reflection": h.queue_reflection() if queued else None}
        if instr:
            o["spy_rtc"] = list(h.rtc.spy)
            now = list(h.full.trace)
            new = [r for r in now if not any(r is x for x in seen_trace)]
            seen_trace[:] = now
            o["trace_new"] = [(r.datetime, r.start_state, r.signal, r.end_state) for r in new]
            o["trace_len"] = len(now)
            if var.get("trace_each") and queued:
                # the user reads trace() after every step, not only at the end
                try:
                    o["trace_text"] = h.trace()
                except Exception as e:  # noqa
                    o["trace_text"] = "raised %s: %s" % (type(e).__name__, e)
                o["trace_recs"] = [(r.datetime, r.start_state, r.signal, r.end_state) for r in now]
        o["live_spy"] = list(live_spy)
        o["live_trace"] = list(live_trace)
        del live_spy[:]
        del live_trace[:]
        t.log.clear()
        del t.raw[:]
        return o

    try:
        h.start_at(t.S[spec["start"]])
        out["steps"].append(observe("start", -1))
        drive = var.get("drive", "dispatch")
        if queued and drive == "circuit":
            # the whole batch is posted first and run by one complete_circuit() call
            Clock.next_step()
            prev = charts.config_of(h)
            for name in spec["events"]:
                h.post_fifo(ev(name))
            del t.raw[:]
            h.complete_circuit()
            out["steps"].append(observe("circuit", prev))
            out["steps"][-1]["queue_left"] = len(h.queue)
        for name in (spec["events"] if not (queued and drive == "circuit") else ()):
            Clock.next_step()
            prev = charts.config_of(h)
            try:
                if drive == "dispatch" or not queued:
                    kind = "dispatch"
                    h.dispatch(ev(name))
                else:
                    kind = "next_rtc"
                    h.post_fifo(ev(name))
                    del t.raw[:]
                    h.next_rtc()
                out["steps"].append(observe(kind, prev))
            except RuntimeError as e:
                if "raised by the handler" not in str(e):
                    raise
                # a handler script failed on purpose: the caller catches it and carries on with the next event
                out["steps"].append(observe(kind, prev))
                out["steps"][-1]["raised"] = True
            if queued and var.get("clear_after") == len(out["steps"]) - 1 and getattr(h, "instrumented", False):
                # the user wipes both logs between two steps: what follows starts from empty logs
                h.clear_spy()
                h.clear_trace()
                out["steps"][-1]["cleared_after"] = True
                seen_trace[:] = []
        if queued and var.get("drive") == "queue":
            n = 0
            while len(h.queue) and n < 12:      # events the handlers posted to themselves
                Clock.next_step()
                prev = charts.config_of(h)
                h.next_rtc()
                out["steps"].append(observe("next_rtc", prev))
                n += 1
        if getattr(h, "instrumented", False) and hasattr(h, "full"):
            out["spy_full"] = list(h.full.spy)
            out["trace_full"] = [(r.datetime, r.start_state, r.signal, r.end_state) for r in h.full.trace]
            if queued:
                out["spy_api"] = h.spy()
                try:
                    out["trace_text"] = h.trace()
                except Exception as e:  # noqa
                    out["trace_text_error"] = "%s: %s" % (type(e).__name__, e)
        out["name"] = getattr(h, "name", None)
    except BudgetExceeded:
        out["exception"] = "BudgetExceeded"
    except Exception as e:  # noqa
        import traceback
        out["exception"] = "%s: %s" % (type(e).__name__, e)
        out["where"] = traceback.format_exc(limit=4)[-400:]
    return out


# ------------------------------------------------------------------ oracles

def check_behaviour(spec, var, run, ref_steps):
    """C18: action log and resting state equal the reference (hence equal across variants); no exception"""
    out = []
    tag = "host=%s/family=%s" % (var["host"], var["family"])
    if run["exception"]:
        return [("exception/%s" % tag, "raised %s %s" % (run["exception"], run.get("where", "")))]
    if var.get("drive") == "circuit" and var["host"].startswith("queued"):
        # one complete_circuit() call ran the whole batch: its log is the concatenation of the reference steps
        want = [x for r in ref_steps[1:] for x in r["log"]]
        o = run["steps"][1] if len(run["steps"]) > 1 else {"log": None, "state": None, "queue_left": None}
        if run["steps"][0]["log"] != ref_steps[0]["log"]:
            out.append(("actions/%s" % tag, "start: actions %r, uninstrumented reference %r" % (run["steps"][0]["log"], ref_steps[0]["log"])))
        elif o["log"] != want or o["state"] != ref_steps[-1]["state"] or o.get("queue_left"):
            out.append(("circuit/%s" % tag, "complete_circuit() over the posted batch: actions %r, rests in %r, %r events left; the uninstrumented "
                        "reference step by step: %r, rests in %r" % (o["log"], o["state"], o.get("queue_left"), want, ref_steps[-1]["state"])))
        return out
    for k, (o, r) in enumerate(zip(run["steps"], ref_steps)):
        if o["log"] != r["log"]:
            out.append(("actions/%s" % tag, "step %d: actions %r, uninstrumented reference %r" % (k, o["log"], r["log"])))
            break
        if o["state"] != r["state"]:
            out.append(("state/%s" % tag, "step %d: rests in %r, reference %r" % (k, o["state"], r["state"])))
            break
    if len(run["steps"]) < len(ref_steps):
        out.append(("missing-step/%s" % tag, "%d steps observed, %d expected" % (len(run["steps"]), len(ref_steps))))
    return out


def check_spy(spec, var, run, rings=None):
    """C19: per-step spy == invocations made (+START, +markers, +queue reflection); full spy == concatenation"""
    out = []
    if run["exception"]:
        return [("exception", "raised %s" % run["exception"])]
    queued = var["host"].startswith("queued")
    rtc_size = rings[2] if rings else 250
    spy_size = rings[0] if rings else 500
    concat = []
    for k, o in enumerate(run["steps"]):
        if not o["instrumented"]:
            return out
        exp = expected_spy(o["raw"])
        if o["kind"] == "start":
            exp = ["START"] + exp
        # the per-step ring is cut before the reflection line is added
        exp_step = exp[-rtc_size:]
        full_part = list(exp_step)
        if queued and o["kind"] in ("start", "next_rtc"):
            exp_step = (exp_step + [o["queue_reflection"]])[-rtc_size:]
            full_part = full_part + [o["queue_reflection"]]
        if o["spy_rtc"] != exp_step:
            i = next((j for j in range(min(len(exp_step), len(o["spy_rtc"]))) if exp_step[j] != o["spy_rtc"][j]),
                     min(len(exp_step), len(o["spy_rtc"])))
            got = o["spy_rtc"][i] if i < len(o["spy_rtc"]) else None
            want = exp_step[i] if i < len(exp_step) else None
            cls = "hook" if "HOOK" in (str(got) + str(want)) else ("marker" if any(m in (str(got) + str(want)) for m in
                  ("POST_", "RECALL", "START", "Queued", "scrib")) else "invocation")
            out.append(("step-spy/%s/%s" % (o["kind"], cls),
                        "step %d (%s): spy line %d is %r, the processor's invocations imply %r; spy %r expected %r" % (
                            k, o["kind"], i, got, want, o["spy_rtc"], exp_step)))
            return out
        if any(r[0] == "act" and r[1] == "clear_spy" for r in o["raw"]):
            concat = []             # the handler wiped the full spy; the step in progress is still recorded whole
        concat += full_part
        if o.get("cleared_after"):
            concat = []
    want_full = concat[-spy_size:]
    if run.get("spy_full") != want_full:
        out.append(("full-spy", "full spy %r is not the concatenation of the step logs %r" % (run.get("spy_full"), want_full)))
    if queued and run.get("spy_api") != want_full:
        out.append(("full-spy/api", "spy() returned %r" % (run.get("spy_api"),)))
    return out


def expected_trace(run):
    """[(step index, (start_state, signal, end_state))] implied by the invocation log"""
    exp = []
    for k, o in enumerate(run["steps"]):
        if o["kind"] == "start":
            exp.append((k, ("top", None, charts.name_of(o["state"]))))
            continue
        if o.get("raised"):
            continue
        offers = [r for r in o["raw"] if r[0] == "ret" and r[1] > 10]
        tran = [r for r in offers if r[3] == TRAN]
        # the event of the step is the first user-signal offer (later user-signal calls cannot occur inside one step)
        if tran:
            exp.append((k, (charts.name_of(o["prev"]), signame(tran[0][1]), charts.name_of(o["state"]))))
    return exp


def check_trace(spec, var, run, rings=None):
    """C20: one record per transition (and the start record), none otherwise; most recent records kept in order"""
    out = []
    if run["exception"]:
        return [("exception", "raised %s" % run["exception"])]
    if not run["steps"] or not run["steps"][0]["instrumented"]:
        return out
    exp = dict(expected_trace(run))
    allrecs = []
    for k, o in enumerate(run["steps"]):
        got = [(a, s, b) for (_, a, s, b) in o["trace_new"]]
        want = [exp[k]] if k in exp else []
        if got != want:
            cls = "missing" if len(got) < len(want) else ("extra" if len(got) > len(want) else "fields")
            why = "start" if o["kind"] == "start" else ("after-raise" if (k > 0 and run["steps"][k - 1].get("raised")) else
                                                           ("transition" if want else ("ignored" if o["ignored"] else "handled")))
            out.append(("trace/%s/%s" % (cls, why), "step %d (%s, %s): new trace records %r, expected %r" % (k, o["kind"], why, got, want)))
            return out
        if any(d is None for (d, _, _, _) in o["trace_new"]):
            out.append(("trace/no-timestamp", "step %d: record without a timestamp %r" % (k, o["trace_new"])))
        allrecs += want
        if o.get("cleared_after"):
            allrecs = []
        if "trace_recs" in o:
            want_text = "\n" + "".join(fmt_trace(r, run.get("name")) for r in o["trace_recs"])
            if o["trace_text"] != want_text:
                out.append(("trace/text-after-step", "step %d: trace() returned %r, the records held at that moment render as %r" % (
                    k, o["trace_text"], want_text)))
                return out
    size = rings[1] if rings else 500
    gotfull = [(a, s, b) for (_, a, s, b) in run.get("trace_full", [])]
    if gotfull != allrecs[-size:]:
        out.append(("trace/full", "trace holds %r, expected the last %d of %r" % (gotfull, size, allrecs)))
    if run.get("trace_text_error"):
        out.append(("trace/text-raises", "trace() raised %s; records %r" % (run["trace_text_error"], run.get("trace_full"))))
    if var["host"].startswith("queued") and "trace_text" in run:
        want_text = "\n" + "".join(fmt_trace(r, run.get("name")) for r in run["trace_full"])
        if run["trace_text"] != want_text:
            out.append(("trace/text", "trace() returned %r, records render as %r" % (run["trace_text"], want_text)))
    return out


def check_live(spec, var, run):
    """C21: live callbacks get every spy line of the step and every new trace record once, in order"""
    out = []
    if run["exception"]:
        return [("exception", "raised %s" % run["exception"])]
    if not var["host"].startswith("queued"):
        return out
    clock = var.get("clock", "inc")
    for k, o in enumerate(run["steps"]):
        if not o["instrumented"]:
            if o["live_spy"] or o["live_trace"]:
                out.append(("live/uninstrumented-output", "step %d: %r %r" % (k, o["live_spy"], o["live_trace"])))
            return out
        if o["kind"] == "dispatch":
            continue        # live output belongs to start_at and next_rtc
        want_spy = o["spy_rtc"] if var.get("live_spy") else []
        if o["live_spy"] != want_spy:
            out.append(("live-spy/%s" % ("missing" if len(o["live_spy"]) < len(want_spy) else "extra-or-order"),
                        "step %d: live spy callback got %r, the step's spy is %r" % (k, o["live_spy"], want_spy)))
            return out
        want_tr = []
        if var.get("live_trace"):
            for rec in o["trace_new"]:
                line = fmt_trace(rec, run.get("name"))
                want_tr.append(line if o["kind"] == "start" else "\n" + line)
        if o["live_trace"] != want_tr:
            cls = "missing" if len(o["live_trace"]) < len(want_tr) else ("repeated" if len(o["live_trace"]) > len(want_tr) else "content")
            out.append(("live-trace/%s/clock=%s" % (cls, "fine" if clock == "inc" else "coarse"),
                        "step %d (clock script %s): live trace callback got %r, new trace records render as %r" % (
                            k, clock, o["live_trace"], want_tr)))
            return out
    return out


def ref_steps(spec):
    return hsmrun.run_ref(hsmrun.norm(spec))
