"""Run one Engine-A scenario on the real processor and on the reference model.

spec (all plain data, JSON-able):
  parent: list[int]; init: {state: state}; react: {(state, signame): [kind, target?]}
  style: list[int] | None; host: plain|instrumented|queued; family: plain|spied
  start: state index; events: [signame, ...]
"""
from mc import charts, refmodel
from mc.common import BudgetExceeded
from mc.charts import Table, use, new_host, ev, SIG, NAMES


def _norm_react(react):
    out = {}
    for k, v in react.items():
        if isinstance(k, str):           # JSON round trip: "3,A"
            a, b = k.split(",")
            k = (int(a), b)
        out[k] = tuple(v)
    return out


def _norm_init(init):
    return {int(k): int(v) for k, v in init.items()}


def norm(spec):
    s = dict(spec)
    s["parent"] = tuple(s["parent"])
    s["init"] = _norm_init(s.get("init") or {})
    s["react"] = _norm_react(s.get("react") or {})
    s["style"] = tuple(s["style"]) if s.get("style") else None
    s.setdefault("host", "plain")
    s.setdefault("family", "plain")
    s.setdefault("events", [])
    return s


def dump(spec):
    s = dict(spec)
    s["parent"] = list(s["parent"])
    s["init"] = {str(k): v for k, v in (s.get("init") or {}).items()}
    s["react"] = {"%d,%s" % k: list(v) for k, v in (s.get("react") or {}).items()}
    s["style"] = list(s["style"]) if s.get("style") else None
    return s


def build(spec, budget=20000):
    react = {(i, SIG[n]): v for (i, n), v in spec["react"].items()}
    t = Table(spec["parent"], init=spec["init"], react=react, style=spec["style"],
              budget=budget, none_state=spec.get("none_state"), none_mode=spec.get("none_mode", "all"))
    use(t, spec["family"])
    kw = {}
    if (spec["host"] == "queued" and spec["family"] == "plain") or spec["host"] == "queued_off":
        kw["instrumented"] = False
    h = new_host(spec["host"], **kw)
    return t, h


def observe(t, h):
    """what a step leaves behind, as the oracle sees it"""
    try:
        cur = charts.config_of(h)
    except Exception as e:  # noqa
        cur = "?%r" % (getattr(h.state.fun, "__name__", h.state.fun),)
    fn = t.S[cur] if isinstance(cur, int) and cur >= 0 else None
    sf = getattr(h, "state_fn", None)
    o = {"state_fn_ok": fn is not None and (sf is fn or sf is getattr(fn, "__wrapped__", fn))}
    if hasattr(h, "current_state") and getattr(h, "instrumented", False):
        o["current_state"] = _norm_name(t, cur, h.current_state())
    o.update(_observe_core(t, h, cur))
    return o


def _norm_name(t, cur, name):
    """a reported state name is right if it is the __name__ of the current state's function: reported in the reference
    model's vocabulary (s<i>), so that families whose functions carry other names (all called `idle`) compare equal"""
    if isinstance(cur, int) and cur >= 0 and name == getattr(t.S[cur], "__name__", None):
        return NAMES[cur]
    return name


def _observe_core(t, h, cur):
    return {"log": [x for x in t.log if x[0] != "empty"],
            "state": cur,
            "state_name": _norm_name(t, cur, getattr(h, "state_name", None)),
            "temp_is_state": h.temp.fun is h.state.fun or h.temp.fun == h.state.fun,
            "ignored": h.event.ignored}


def run_impl(spec, budget=20000):
    """returns list of observations: [after start_at, after event 1, ...];
    an observation may be {'exception': repr} (and the run stops there)."""
    t, h = build(spec, budget)
    out = []
    try:
        h.start_at(t.S[spec["start"]])
        out.append(observe(t, h))
        for name in spec["events"]:
            t.log.clear()
            h.dispatch(ev(name))
            out.append(observe(t, h))
        if spec.get("restart") is not None:        # the same chart object started again
            t.log.clear()
            h.start_at(t.S[spec["restart"]])
            out.append(observe(t, h))
    except BudgetExceeded as e:
        out.append({"exception": "BudgetExceeded", "log": list(t.log[:40])})
    except Exception as e:  # noqa
        out.append({"exception": "%s: %s" % (type(e).__name__, e), "log": list(t.log[:40])})
    return out


def run_ref(spec):
    parent, init, react = spec["parent"], spec["init"], spec["react"]
    log, c = refmodel.start_at(parent, init, spec["start"])
    out = [{"log": log, "state": c, "state_name": NAMES[c], "temp_is_state": True, "ignored": False}]
    for name in spec["events"]:
        offers, alog, c, kind = refmodel.step(parent, init, react, c, name)
        out.append({"log": offers + alog, "state": c, "state_name": NAMES[c],
                    "temp_is_state": True, "ignored": kind == "ignored"})
        last_ignored = kind == "ignored"
    if spec.get("restart") is not None:
        log, c = refmodel.start_at(parent, init, spec["restart"])
        out.append({"log": log, "state": c, "state_name": NAMES[c], "temp_is_state": True,
                    "ignored": out[-1]["ignored"]})       # start_at does not touch the flag of the last event
    return out


CORE_FIELDS = ("log", "state", "state_name", "temp_is_state", "ignored")
NAME_FIELDS = ("state", "state_name", "state_fn_ok", "current_state")


def first_diff(impl, ref, fields=CORE_FIELDS):
    """None if equal, else (step index, field, impl value, ref value)."""
    for k in range(max(len(impl), len(ref))):
        if k >= len(impl):
            return (k, "missing-step", None, ref[k])
        a = impl[k]
        if "exception" in a:
            return (k, "exception", a["exception"], ref[k] if k < len(ref) else None)
        b = ref[k]
        for f in fields:
            if f == "state_fn_ok":
                if not a[f]:
                    return (k, f, False, True)
            elif f == "current_state":
                if f in a and a[f] != b["state_name"]:
                    return (k, f, a[f], b["state_name"])
            elif a[f] != b[f]:
                return (k, f, a[f], b[f])
    return None
