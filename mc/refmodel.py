"""Reference model of UML/Samek transition semantics (the oracle for
C01-C03).  Independent of the a-h topology case split in miros' trans_:
only parent maps and paths."""
from mc.forests import path


def settle(parent, init, s, log):
    """follow initial transitions from s (already entered); returns rest state."""
    seen = 0
    while True:
        log.append(("init", s))
        t = init.get(s)
        if t is None:
            return s
        # enter states strictly below s down to t, outside-in
        p = path(parent, t)
        k = p.index(s)
        for x in reversed(p[:k]):
            log.append(("entry", x))
        s = t
        seen += 1
        assert seen < 64


def start_at(parent, init, s):
    log = []
    for x in reversed(path(parent, s)):
        log.append(("entry", x))
    rest = settle(parent, init, s, log)
    return log, rest


def lca_like(parent, S, T):
    """L of the property text: innermost state that is S or T or encloses
    both; a self transition exits and re-enters S (so L is S's parent)."""
    if S == T:
        return parent[S]
    pS, pT = path(parent, S), path(parent, T)
    if S in pT:      # S encloses T
        return S
    if T in pS:      # T encloses S
        return T
    for x in pS:
        if x in pT:
            return x
    return -1


def transition(parent, init, c, S, T):
    """expected ordered exit/entry/init log for a transition answered by S
    (on path(c)) with target T, from current state c; returns (log, rest)."""
    log = []
    L = lca_like(parent, S, T)
    for x in path(parent, c):
        if x == L:
            break
        log.append(("exit", x))
    pT = path(parent, T)
    below = pT if L < 0 else pT[:pT.index(L)]
    for x in reversed(below):
        log.append(("entry", x))
    rest = settle(parent, init, T, log)
    return log, rest


def step(parent, init, react, c, signame):
    """One run-to-completion step of the reference chart: returns
    (offers, actionlog, new_config, kind) where kind in tran/handled/ignored.
    react: (state, signame) -> ('H',)|('T',j)|('D',)."""
    offers = []
    for x in path(parent, c):
        r = react.get((x, signame))
        offers.append((signame, x))
        if r is None or r[0] == "D":
            continue
        if r[0] == "H":
            return offers, [], c, "handled"
        log, rest = transition(parent, init, c, x, r[1])
        return offers, log, rest, "tran"
    return offers, [], c, "ignored"
