"""Bind miros' concurrency/time seams to the Engine-B stand-ins and reset the
process-wide singletons between executions."""
import sys, threading, queue, types
from mc.common import load_miros
load_miros()
from mc import sched                                   # noqa: E402
import miros.activeobject as ao                        # noqa: E402
import miros.thread_safe_attributes as tsa             # noqa: E402
import miros.singleton as singleton                    # noqa: E402
import miros.event as mevent                           # noqa: E402
import miros.hsm as hsm                                # noqa: E402

_installed = False
MODULES = [ao, tsa, singleton, mevent, hsm]


class CSourceThreadEvent(sched.CEvent):
    pass


class _ThreadingShim(types.SimpleNamespace):
    pass


_shim = _ThreadingShim(Thread=sched.CThread, Event=sched.CEvent, RLock=sched.CRLock, Lock=sched.CLock,
                       get_ident=threading.get_ident, current_thread=sched.current_thread)
_qshim = _ThreadingShim(Queue=sched.CQueue, PriorityQueue=sched.CPriorityQueue, Empty=queue.Empty, Full=queue.Full)
REAL = {threading.Thread: sched.CThread, threading.Event: sched.CEvent, threading.RLock: sched.CRLock,
        threading.Lock: sched.CLock, queue.Queue: sched.CQueue, queue.PriorityQueue: sched.CPriorityQueue,
        threading.current_thread: sched.current_thread}


def install():
    """idempotent; call in every worker process before the first execution"""
    global _installed
    if _installed:
        return
    import time as _t, uuid as _u
    for m in MODULES:
        for name, val in list(vars(m).items()):
            try:
                rep = REAL.get(val)
            except TypeError:
                rep = None
            if rep is not None:
                setattr(m, name, rep)
            elif val is threading:
                setattr(m, name, _shim)
            elif val is queue:
                setattr(m, name, _qshim)
            elif val is _t:
                setattr(m, name, sched.VTime)
            elif val is _u:
                setattr(m, name, sched.VUuid)
    ao.pp = lambda item: None           # miros pretty-prints its source list before raising: keep stdout clean
    ao.SourceThreadEvent = CSourceThreadEvent
    ao.FiberThreadEvent.klass = CSourceThreadEvent
    # any lock a (repaired) SingletonDecorator instance created at import time is a real lock:
    # give every decorator instance a controlled one
    # module-level decorators live across executions: remember every attribute they have now, reset() puts them back
    # (a decorator may keep more state than `instance`, e.g. a lazily made lock)
    for m in MODULES:
        for name, val in list(vars(m).items()):
            if isinstance(val, singleton.SingletonDecorator) and id(val) not in _PRISTINE:
                _PRISTINE[id(val)] = (val, {k: v for k, v in vars(val).items() if k != "instance"})
    # plain module-level containers (caches, registries a change may add) are emptied back to what they held now
    for m in MODULES:
        for name, val in list(vars(m).items()):
            if type(val) in (dict, list, set) and not name.startswith("__"):
                _CONTAINERS[(m.__name__, name)] = (val, type(val)(val))
    _installed = True


SINGLETONS = ["ActiveFabric", "FiberThreadEvent", "InstrumentionWriter"]


def fresh_locks(holder):
    """replace every lock-like attribute of `holder` (real ones made at import time, or stand-ins left
    over from the previous execution) by a fresh stand-in bound to the ACTIVE scheduler"""
    for k, v in list(vars(holder).items()):
        tn = type(v).__name__
        if tn in ("lock", "RLock", "_RLock") or isinstance(v, (sched.CLock, sched.CRLock)):
            setattr(holder, k, sched.CRLock() if "RLock" in tn else sched.CLock())


def fix_singleton_locks():
    for m in MODULES:
        fresh_locks(m)
        for name, val in list(vars(m).items()):
            if isinstance(val, singleton.SingletonDecorator):
                fresh_locks(val)


_PRISTINE = {}
_CONTAINERS = {}


def reset_containers():
    for val, was in _CONTAINERS.values():
        if isinstance(val, list):
            val[:] = was
        else:
            val.clear()
            val.update(was)


def reset():
    """fresh runtime singletons for one execution (call with the scheduler ACTIVE)"""
    for dec, attrs in _PRISTINE.values():
        for k in list(vars(dec)):
            if k not in attrs and k != "instance":
                delattr(dec, k)
        for k, v in attrs.items():
            setattr(dec, k, v)
    reset_containers()
    for n in SINGLETONS:
        getattr(ao, n).instance = None
    fix_singleton_locks()
    sched.CThread._count = 0


def racy_codes(extra=()):
    """code objects whose lines are scheduling points: everything in activeobject, event,
    singleton, thread_safe_attributes and the queue methods of HsmWithQueues"""
    objs = [ao, mevent, singleton, tsa]
    codes = sched.code_objects_of(*objs)
    H = hsm.HsmWithQueues
    for n in ("post_fifo", "post_lifo", "defer", "recall", "next_rtc", "complete_circuit"):
        codes += sched.code_objects_of(vars(H)[n])
    codes += sched.code_objects_of(*[f for f in (getattr(hsm, "append_fifo_to_spy", None),) if f])
    seen, out = set(), []
    for c in list(codes) + list(extra):
        if c not in seen:
            seen.add(c)
            out.append(c)
    return out
