"""Engine B core: a cooperative scheduler over real OS threads.

Exactly one *virtual thread* (a real OS thread parked on its own semaphore)
holds the baton at any time.  Scheduling points are the operations of the
stand-in primitives below (CThread/CEvent/CQueue/CPriorityQueue/CRLock/virtual
time) and, optionally, sys.monitoring LINE / INSTRUCTION events in declared
code objects.  Every choice among >= 2 options inside the *race window* is
recorded, so an execution is a pure function of its choice prefix.
"""
import sys, threading, heapq, dis, queue as _queue, uuid as _uuid, time as _time
from collections import deque

import _thread
_RealThread = threading.Thread
_get_ident = threading.get_ident


class _Baton:
    """binary semaphore on a raw lock (much cheaper than threading.Semaphore)"""
    __slots__ = ("l",)

    def __init__(self):
        self.l = _thread.allocate_lock()
        self.l.acquire()

    def acquire(self, timeout=-1):
        return self.l.acquire(True, timeout)

    def release(self):
        try:
            self.l.release()
        except RuntimeError:
            pass


_RealSemaphore = _Baton
_POOL_LOCK = _thread.allocate_lock()
_IDLE = []
_POOL_PID = [None]


class _PoolThread:
    """a long-lived OS thread that runs one virtual-thread body after another"""

    def __init__(self):
        self.assign = _Baton()
        self.job = None
        self.t = _RealThread(target=self.loop, daemon=True)
        self.t.start()

    def loop(self):
        while True:
            self.assign.acquire()
            job, self.job = self.job, None
            try:
                job()
            finally:
                with _POOL_LOCK:
                    _IDLE.append(self)


def _pool_run(job):
    import os
    with _POOL_LOCK:
        if _POOL_PID[0] != os.getpid():      # forked child: the parent's pool threads do not exist here
            _IDLE.clear()
            _POOL_PID[0] = os.getpid()
        w = _IDLE.pop() if _IDLE else None
    if w is None:
        w = _PoolThread()
    w.job = job
    w.assign.release()
    return w

ACTIVE = None          # the scheduler of the running execution (one per process)


class ExecutionAbort(BaseException):
    """Raised in every virtual thread when the execution is torn down."""


class ReplayDivergence(Exception):
    """The same choice prefix produced a different set of options: some
    nondeterminism is not owned by the scheduler.  Always a tooling error."""


CLOCK = "CLOCK"


class VThread:
    __slots__ = ("tid", "name", "sem", "target", "args", "kwargs", "started", "finished",
                 "blocked", "wake", "label", "exc", "os_thread", "daemon", "npoints", "is_main", "done", "cthread")

    def __init__(self, tid, name):
        self.tid, self.name = tid, name
        self.sem = _Baton()
        self.target = None
        self.args, self.kwargs = (), {}
        self.started = self.finished = False
        self.blocked = None      # predicate or None
        self.wake = None         # virtual time at which a sleep / timeout ends
        self.label = "new"
        self.exc = None
        self.os_thread = None
        self.daemon = False
        self.npoints = 0
        self.is_main = False
        self.done = None
        self.cthread = None

    def __repr__(self):
        return "<vt%d %s %s>" % (self.tid, self.name, self.label)


class Scheduler:
    def __init__(self, prefix=(), horizon=4000, time_horizon=None, fair_k=150, fingerprint=None):
        self.prefix = list(prefix)          # [(choice, n_options), ...]
        self.trace = []                     # [(choice, n_options, alt_costs, label)]
        self.threads = []
        self.by_ident = {}
        self.current = None
        self.now = 0.0
        self.steps = 0
        self.horizon = horizon
        self.time_horizon = time_horizon
        self.window = False
        self.abort = False
        self.verdict = None                 # None | 'deadlock' | 'horizon'
        self.run_len = 0
        self.fair_k = fair_k
        self.log = []                       # harness observations: (step, now, tid, what...)
        self.fingerprint = fingerprint
        self.fps = set()
        self.switches = 0                   # context switches inside the window
        self.uuid_counter = 0
        self.thread_exceptions = []
        self.points_in_window = 0
        self.divergence = None
        self.clock_deviations = 0
        self.free_cost = 0
        self.policy = None                  # optional default-choice policy beyond the replayed prefix (periodic schedules)
        self.intra_cost = 1                 # cost of a preemption inside a source line (instruction mode); 1.01 with bound 2.015
        #                                     = "at most one of the two preemptions may be inside a line"
        self.fair_stay_cost = 0             # cost of not yielding at a fairness point (1 in round-robin quantum harnesses)
        self.lock_points = True             # False: uncontended lock operations are not scheduling points
        self.on_point = None                # harness invariant evaluated at every scheduling point in the window
        self.snapshot = None
        main = VThread(0, "main")
        main.started = True
        main.is_main = True
        main.label = "run"
        self.threads.append(main)
        self.current = main
        self.by_ident[_get_ident()] = main

    # ----------------------------------------------------------- basics
    def me(self):
        return self.by_ident.get(_get_ident())

    def note(self, *what):
        """append to the linearised observation log"""
        cur = self.current
        self.log.append((self.steps, self.now, cur.tid if cur else -1) + what)

    def _enabled(self, t):
        if not t.started or t.finished:
            return False
        if t.blocked is None:
            return True
        if t.wake is not None and t.wake <= self.now:
            return True
        return bool(t.blocked())

    def _next_wake(self):
        w = None
        for t in self.threads:
            if t.started and not t.finished and t.blocked is not None and t.wake is not None and t.wake > self.now:
                if self.time_horizon is not None and t.wake > self.time_horizon:
                    continue
                if t.blocked():
                    continue
                if w is None or t.wake < w:
                    w = t.wake
        return w

    def quiescent_but(self, me):
        """nothing except `me` can run and the clock cannot advance"""
        for t in self.threads:
            if t is not me and self._enabled(t):
                return False
        return self._next_wake() is None

    # ----------------------------------------------------------- choosing
    def _options(self, cur_enabled, label=""):
        cur = self.current
        pre = self.intra_cost if label.startswith("I:") else 1
        others = [t for t in self.threads if t is not cur and self._enabled(t)]
        opts, costs = [], []
        if cur_enabled:
            if self.run_len >= self.fair_k and others:
                # fairness: a thread that ran fair_k points in a row yields (deterministic, free)
                nxt = None
                for t in others:
                    if t.tid > cur.tid:
                        nxt = t
                        break
                nxt = nxt or others[0]
                opts.append(nxt); costs.append(0)
                opts.append(cur); costs.append(self.fair_stay_cost)
                for t in others:
                    if t is not nxt:
                        opts.append(t); costs.append(1)
            else:
                opts.append(cur); costs.append(0)
                for t in others:
                    opts.append(t); costs.append(pre)
        else:
            for k, t in enumerate(others):
                # the running thread blocked/finished: the switch is free; picking another than the default
                # successor costs `free_cost` (0 = CHESS: all orders explored without limit)
                opts.append(t); costs.append(0 if k == 0 else self.free_cost)
        if self._next_wake() is not None:
            opts.append(CLOCK)
            costs.append(1 if len(opts) > 1 else 0)
        return opts, costs

    def _choose(self, opts, costs, label):
        if len(opts) == 1 or not self.window:
            return opts[0]
        i = len(self.trace)
        if i < len(self.prefix):
            c, n = self.prefix[i]
            if n != len(opts) or c >= len(opts):
                self.divergence = "choice %d: recorded %d options, now %d (%s)" % (i, n, len(opts), label)
                self._teardown("divergence")
                raise ExecutionAbort()
        elif self.policy is not None:
            c = self.policy(self, opts, costs, label)
        else:
            c = 0
        self.trace.append((c, len(opts), tuple(costs), label))
        if opts[c] is CLOCK and costs[c]:
            self.clock_deviations += 1      # time passed although a thread was runnable (scheduling latency)
        return opts[c]

    def _advance_clock(self):
        w = self._next_wake()
        self.now = w
        for t in self.threads:
            if t.started and not t.finished and t.blocked is not None and t.wake is not None and t.wake <= self.now:
                return t
        raise AssertionError("clock advanced but nobody woke")

    def _dispatch(self, cur_enabled, label):
        """pick who runs next; returns the VThread (maybe the current one) or None"""
        opts, costs = self._options(cur_enabled, label)
        if not opts:
            return None
        ch = self._choose(opts, costs, label)
        if ch is CLOCK:
            ch = self._advance_clock()
        return ch

    def _handover(self, nxt, park):
        cur = self.current
        if nxt is cur:
            self.run_len += 1
            return
        self.run_len = 0
        if self.window:
            self.switches += 1
        self.current = nxt
        nxt.sem.release()
        if park:
            cur.sem.acquire()
            if self.abort:
                raise ExecutionAbort()

    def _stuck_verdict(self):
        """nothing can run: a deadlock - unless somebody merely sleeps past the time horizon of the harness (then the
        execution was cut by the horizon, which is not an observation about the code)"""
        if self.time_horizon is not None:
            for t in self.threads:
                if t.started and not t.finished and t.wake is not None and t.wake > self.time_horizon and t.is_main:
                    return "time-horizon"
        return "deadlock"

    def _teardown(self, verdict):
        if self.verdict is None:
            self.verdict = verdict
        if self.snapshot is None:
            self.snapshot = [(t.name, t.label, t.finished) for t in self.threads]
        self.abort = True
        me = self.me()
        for t in self.threads:
            if t is not me and t.started and not t.finished:
                t.sem.release()

    # ----------------------------------------------------------- API for stand-ins
    def point(self, label):
        """a scheduling point: the current thread is about to do `label`"""
        if self.abort:
            raise ExecutionAbort()
        cur = self.current
        me = self.by_ident.get(_get_ident())
        if me is not cur:
            # a thread this scheduler does not own (or one released by teardown)
            if me is None:
                return
            raise ExecutionAbort()
        self.steps += 1
        cur.npoints += 1
        cur.label = label
        if self.window:
            self.points_in_window += 1
            if self.on_point is not None:
                self.on_point()
            if self.fingerprint is not None:
                self.fps.add(hash((tuple((t.tid, t.finished, t.label) for t in self.threads), self.fingerprint())))
        if self.steps > self.horizon:
            self._teardown("horizon")
            raise ExecutionAbort()
        nxt = self._dispatch(True, label)
        self._handover(nxt, True)

    def block(self, pred, label, timeout=None):
        """block the current thread until pred() (or the virtual timeout); returns pred()"""
        if self.abort:
            raise ExecutionAbort()
        cur = self.current
        if pred():
            return True
        if timeout is not None and timeout <= 0:
            return False
        cur.blocked = pred
        cur.label = label
        cur.wake = (self.now + timeout) if timeout is not None else None
        try:
            while True:
                nxt = self._dispatch(False, label)
                if nxt is None:
                    self._teardown(self._stuck_verdict())
                    raise ExecutionAbort()
                self._handover(nxt, True)
                if pred():
                    return True
                if cur.wake is not None and cur.wake <= self.now:
                    return False
        finally:
            cur.blocked = None
            cur.wake = None

    def sleep(self, d):
        cur = self.current
        if self.abort:
            raise ExecutionAbort()
        self.point("sleep")
        if d <= 0:
            return
        cur.blocked = _never
        cur.label = "sleeping"
        cur.wake = self.now + d
        try:
            while cur.wake > self.now:
                nxt = self._dispatch(False, "sleeping")
                if nxt is None:
                    self._teardown(self._stuck_verdict())
                    raise ExecutionAbort()
                self._handover(nxt, True)
        finally:
            cur.blocked = None
            cur.wake = None

    # ----------------------------------------------------------- threads
    def spawn(self, target, args=(), kwargs=None, name=None, daemon=True):
        vt = VThread(len(self.threads), name or "t%d" % len(self.threads))
        vt.target, vt.args, vt.kwargs = target, args, kwargs or {}
        self.threads.append(vt)
        return vt

    def start(self, vt):
        if self.abort:
            raise ExecutionAbort()
        vt.started = True
        vt.label = "started"
        vt.done = _Baton()
        vt.os_thread = _pool_run(lambda: self._boot(vt))
        self.point("thread.start")

    def _boot(self, vt):
        vt.sem.acquire()
        self.by_ident[_get_ident()] = vt
        try:
            if not self.abort:
                vt.target(*vt.args, **vt.kwargs)
        except ExecutionAbort:
            pass
        except BaseException as e:  # noqa
            vt.exc = e
            import traceback
            self.thread_exceptions.append((vt.tid, vt.name, "%s: %s" % (type(e).__name__, e),
                                           traceback.format_exc(limit=6)))
        finally:
            vt.finished = True
            vt.label = "finished"
            if not self.abort and self.current is vt:
                try:
                    nxt = self._dispatch(False, "finish")
                    if nxt is None:
                        self._teardown(self._stuck_verdict())
                    else:
                        self._handover(nxt, False)
                except ExecutionAbort:
                    pass
            vt.done.release()

    def settle(self):
        """main thread: wait until nothing else can run (quiescence)"""
        me = self.current
        self.block(lambda: self.quiescent_but(me), "settle")

    def open_window(self):
        self.window = True
        self.run_len = 0

    def finish(self):
        """called by the main thread when its body is over: tear everything down"""
        self._teardown(self.verdict or "done")
        for t in self.threads:
            if t.done is not None:
                if not t.done.acquire(20):
                    raise RuntimeError("virtual thread %r did not unwind" % (t,))


def _never():
    return False


# =====================================================================
# stand-ins (module-level classes; they act on the ACTIVE scheduler)
# =====================================================================

class CThread:
    _count = 0

    def __init__(self, group=None, target=None, name=None, args=(), kwargs=None, *, daemon=None):
        self._s = ACTIVE
        self._target, self._args, self._kwargs = target, tuple(args), dict(kwargs or {})
        CThread._count += 1
        self._name = str(name) if name is not None else "Thread-%d" % CThread._count
        self.daemon = bool(daemon)
        self._vt = None

    @property
    def name(self):
        return self._name

    @name.setter
    def name(self, v):
        self._name = str(v)
        if self._vt is not None:
            self._vt.name = self._name

    def run(self):
        if self._target is not None:
            self._target(*self._args, **self._kwargs)

    def start(self):
        if self._vt is not None:
            raise RuntimeError("threads can only be started once")
        s = self._s
        fail = getattr(s, "fail_thread_start", None)
        if fail and self._name in fail:
            # injected environment answer: the operating system refuses one more thread
            fail.discard(self._name)
            raise RuntimeError("can't start new thread")
        self._vt = s.spawn(self.run, name=self._name, daemon=self.daemon)
        self._vt.cthread = self
        s.note("thread.start", self._vt.tid, self._name)
        s.start(self._vt)

    def is_alive(self):
        s = self._s
        s.point("thread.is_alive")
        return self._vt is not None and self._vt.started and not self._vt.finished

    def join(self, timeout=None):
        s = self._s
        if self._vt is None:
            raise RuntimeError("cannot join thread before it is started")
        if self._vt is s.me():
            raise RuntimeError("cannot join current thread")
        s.point("thread.join")
        vt = self._vt
        s.block(lambda: vt.finished, "join:%s" % vt.tid, timeout)

    @property
    def ident(self):
        return None if self._vt is None else self._vt.tid


class _MainCThread:
    name, daemon, ident = "MainThread", False, 0

    def is_alive(self):
        return True


_MAIN_CTHREAD = _MainCThread()


def current_thread():
    """threading.current_thread() for code running under the scheduler: the CThread object of the virtual thread"""
    s = ACTIVE
    me = s.me() if s is not None else None
    if me is None or me.cthread is None:
        return _MAIN_CTHREAD
    return me.cthread


class CEvent:
    def __init__(self):
        self._s = ACTIVE
        self._flag = False

    def is_set(self):
        self._s.point("event.is_set")
        return self._flag

    isSet = is_set

    def set(self):
        self._s.point("event.set")
        self._flag = True

    def clear(self):
        self._s.point("event.clear")
        self._flag = False

    def wait(self, timeout=None):
        self._s.point("event.wait")
        return self._s.block(lambda: self._flag, "event.wait", timeout)


class CQueue:
    def __init__(self, maxsize=0):
        self._s = ACTIVE
        self.maxsize = maxsize
        self.unfinished_tasks = 0
        self._init(maxsize)
        # code that reaches into the stdlib Queue's documented-by-convention internals (`with q.mutex:` around q.queue)
        # finds a controlled lock here
        self.mutex = CLock()

    # data part: the stdlib algorithms
    def _init(self, maxsize):
        self.queue = deque()

    def _qsize(self):
        return len(self.queue)

    def _put(self, item):
        self.queue.append(item)

    def _get(self):
        return self.queue.popleft()

    def qsize(self):
        self._s.point("queue.qsize")
        return self._qsize()

    def empty(self):
        self._s.point("queue.empty")
        return not self._qsize()

    def full(self):
        self._s.point("queue.full")
        return 0 < self.maxsize <= self._qsize()

    def put(self, item, block=True, timeout=None):
        s = self._s
        s.point("queue.put")
        if self.maxsize > 0:
            if not block:
                if self._qsize() >= self.maxsize:
                    raise _queue.Full
            elif timeout is not None and timeout < 0:
                raise ValueError("'timeout' must be a non-negative number")
            else:
                ok = s.block(lambda: self._qsize() < self.maxsize, "queue.put(full)", timeout)
                if not ok:
                    raise _queue.Full
        self._put(item)
        self.unfinished_tasks += 1

    def get(self, block=True, timeout=None):
        s = self._s
        s.point("queue.get")
        if not block:
            if not self._qsize():
                raise _queue.Empty
        elif timeout is not None and timeout < 0:
            raise ValueError("'timeout' must be a non-negative number")
        else:
            ok = s.block(lambda: self._qsize() > 0, "queue.get(empty)", timeout)
            if not ok:
                raise _queue.Empty
        return self._get()

    def put_nowait(self, item):
        return self.put(item, block=False)

    def get_nowait(self):
        return self.get(block=False)

    def task_done(self):
        self._s.point("queue.task_done")
        unfinished = self.unfinished_tasks - 1
        if unfinished < 0:
            raise ValueError("task_done() called too many times")
        self.unfinished_tasks = unfinished

    def join(self):
        self._s.point("queue.join")
        self._s.block(lambda: self.unfinished_tasks == 0, "queue.join")


class CPriorityQueue(CQueue):
    def _init(self, maxsize):
        self.queue = []

    def _qsize(self):
        return len(self.queue)

    def _put(self, item):
        heapq.heappush(self.queue, item)

    def _get(self):
        return heapq.heappop(self.queue)


class CRLock:
    def __init__(self):
        self._s = ACTIVE
        self._owner = None
        self._count = 0

    def acquire(self, blocking=True, timeout=-1):
        s = self._s
        if s.lock_points:
            s.point("rlock.acquire")
        elif s.abort:
            raise ExecutionAbort()
        me = s.me()
        if self._owner is me:
            self._count += 1
            return True
        if not blocking:
            if self._owner is not None:
                return False
        else:
            ok = s.block(lambda: self._owner is None, "rlock.acquire(held)",
                         None if timeout is None or timeout < 0 else timeout)
            if not ok:
                return False
        self._owner = me
        self._count = 1
        return True

    __enter__ = acquire

    def release(self):
        s = self._s
        if s.lock_points:
            s.point("rlock.release")
        if self._owner is not s.me():
            raise RuntimeError("cannot release un-acquired lock")
        self._count -= 1
        if self._count == 0:
            self._owner = None

    def __exit__(self, *a):
        self.release()

    def held_by(self):
        return None if self._owner is None else self._owner.tid


class CLock:
    """non-reentrant lock (for repairs that add a threading.Lock)"""

    def __init__(self):
        self._s = ACTIVE
        self._owner = None

    def acquire(self, blocking=True, timeout=-1):
        s = self._s
        if s.lock_points:
            s.point("lock.acquire")
        elif s.abort:
            raise ExecutionAbort()
        if not blocking:
            if self._owner is not None:
                return False
        else:
            ok = s.block(lambda: self._owner is None, "lock.acquire(held)",
                         None if timeout is None or timeout < 0 else timeout)
            if not ok:
                return False
        self._owner = s.me()
        return True

    __enter__ = acquire

    def release(self):
        if self._s.lock_points:
            self._s.point("lock.release")
        if self._owner is None:
            raise RuntimeError("release unlocked lock")
        self._owner = None

    def __exit__(self, *a):
        self.release()

    def locked(self):
        return self._owner is not None


class VTime:
    """stand-in for the `time` module as miros uses it"""

    @staticmethod
    def sleep(d):
        ACTIVE.sleep(d)

    @staticmethod
    def time():
        return 1.7e9 + ACTIVE.now

    @staticmethod
    def monotonic():
        return ACTIVE.now

    perf_counter = monotonic


class VUuid:
    """stand-in for the `uuid` module: deterministic uuid4"""
    NAMESPACE_DNS = _uuid.NAMESPACE_DNS
    UUID = _uuid.UUID
    uuid5 = staticmethod(_uuid.uuid5)

    @staticmethod
    def uuid4():
        s = ACTIVE
        s.uuid_counter += 1
        return _uuid.UUID(int=(0xabcdef << 64) + s.uuid_counter)


# =====================================================================
# sys.monitoring scheduling points
# =====================================================================

TOOL = 3
_mon_state = {"on": False, "codes": [], "mode": None}
SHARED_OPS = {"CALL", "CALL_KW", "CALL_FUNCTION_EX", "LOAD_ATTR", "STORE_ATTR", "BINARY_SUBSCR", "STORE_SUBSCR",
              "DELETE_SUBSCR", "CONTAINS_OP", "COMPARE_OP", "GET_ITER", "FOR_ITER", "LOAD_GLOBAL", "STORE_GLOBAL",
              "LOAD_DEREF", "STORE_DEREF", "BINARY_OP", "IS_OP", "LOAD_SUPER_ATTR", "DELETE_ATTR"}
_shared_offsets = {}


def _on_line(code, line):
    s = ACTIVE
    if s is None or not s.window:
        return
    me = s.by_ident.get(_get_ident())
    if me is None:
        return
    s.point("L:%s:%d" % (code.co_name, line))


def _on_instr(code, off):
    s = ACTIVE
    offs = _shared_offsets.get(code)
    if offs is None:
        offs = _shared_offsets[code] = _classify_offsets(code)
    op = offs.get(off)
    if op is None:
        return sys.monitoring.DISABLE
    if s is None or not s.window:
        return
    me = s.by_ident.get(_get_ident())
    if me is None:
        return
    # "I:" = inside a source line, "J:" = the first shared-access instruction of a source line
    s.point("%s:%s:%d:%s" % (op[0], code.co_name, off, op[1]))


def _classify_offsets(code):
    """offset -> ('J' | 'I', opname) for the shared-access-capable instructions: 'J' marks the first one of each source
    line (a preemption there is what line granularity also offers), 'I' the others (preemptions inside a line)"""
    out = {}
    first = True
    for i in dis.get_instructions(code):
        if i.starts_line is not None:
            first = True
        if i.opname in SHARED_OPS:
            out[i.offset] = ("J" if first else "I", i.opname)
            first = False
    return out


def code_objects_of(*objs):
    """all code objects (functions, methods, nested functions) reachable from modules/classes/functions"""
    import types
    seen, out = set(), []

    def add_code(co):
        if co in seen:
            return
        seen.add(co)
        out.append(co)
        for c in co.co_consts:
            if isinstance(c, types.CodeType):
                add_code(c)

    def visit(o, modname):
        if isinstance(o, types.FunctionType):
            add_code(o.__code__)
            w = getattr(o, "__wrapped__", None)
            if w is not None:
                visit(w, modname)
        elif isinstance(o, (staticmethod, classmethod)):
            visit(o.__func__, modname)
        elif isinstance(o, property):
            for f in (o.fget, o.fset, o.fdel):
                if f:
                    visit(f, modname)
        elif isinstance(o, type):
            if o.__module__ != modname:
                return
            for v in vars(o).values():
                visit(v, modname)
        elif isinstance(o, types.ModuleType):
            for v in vars(o).values():
                if getattr(v, "__module__", None) == o.__name__:
                    visit(v, o.__name__)
        elif type(o).__name__ == "SingletonDecorator":
            visit(o.klass, modname)
        else:
            # e.g. a functools.lru_cache wrapper around a factory function.  Looked up statically: a plain getattr would
            # run the object's own __getattr__ (the signal registry registers any unknown name it is asked for)
            try:
                w = vars(o).get("__wrapped__")
            except TypeError:
                w = None
            if isinstance(w, types.FunctionType):
                visit(w, modname)

    for o in objs:
        visit(o, getattr(o, "__name__", None) if not isinstance(o, type) else o.__module__)
    return out


def monitor(codes, mode="line"):
    """turn on scheduling points in these code objects (mode 'line' or 'instr')"""
    unmonitor()
    if not codes:
        return
    mon = sys.monitoring
    mon.use_tool_id(TOOL, "mc-sched")
    ev = mon.events.LINE if mode == "line" else mon.events.INSTRUCTION
    mon.register_callback(TOOL, ev, _on_line if mode == "line" else _on_instr)
    for co in codes:
        mon.set_local_events(TOOL, co, ev)
    _mon_state.update(on=True, codes=list(codes), mode=mode)


def unmonitor():
    if not _mon_state["on"]:
        return
    mon = sys.monitoring
    for co in _mon_state["codes"]:
        mon.set_local_events(TOOL, co, 0)
    mon.register_callback(TOOL, mon.events.LINE, None)
    mon.register_callback(TOOL, mon.events.INSTRUCTION, None)
    mon.free_tool_id(TOOL)
    _mon_state.update(on=False, codes=[], mode=None)
