"""Engine B self-test: a racy counter must be caught at preemption bound 1 and
never at bound 0; a locked counter must never be caught; replay is exact."""
from mc import sched, explore


class Box:
    def __init__(self):
        self.v = 0


def incr(box):
    x = box.v
    box.v = x + 1


def incr_locked(box, lock):
    lock.acquire()
    x = box.v
    box.v = x + 1
    lock.release()


class Counter:
    name = "selftest-counter"
    horizon = 500
    _ready = False

    def __init__(self, locked):
        self.locked = locked

    def setup_process(self):
        sched.monitor([incr.__code__, incr_locked.__code__], "line")

    def body(self, s, p):
        box = Box()
        lock = sched.CRLock()
        s.open_window()
        ts = []
        for i in range(p["threads"]):
            t = sched.CThread(target=incr_locked if self.locked else incr,
                              args=(box, lock) if self.locked else (box,))
            t.start()
            ts.append(t)
        s.settle()
        return {"v": box.v}

    def check(self, p, ex):
        if ex.verdict != "done":
            return [("verdict", ex.verdict)]
        if ex.obs["v"] != p["threads"]:
            return [("lost-update", "v=%d" % ex.obs["v"])]
        return []


def main():
    h = Counter(False)
    st0 = explore.explore(h, [{"threads": 2}], 0, jobs=1)
    assert not st0.violations, st0.violations
    st1 = explore.explore(h, [{"threads": 2}], 1, jobs=1)
    assert st1.violations, "racy counter not caught at bound 1"
    assert st1.executions > st0.executions
    w = st1.violations[0][2]
    ex, v = explore.replay(h, w)
    assert v and ex.obs == w["obs"]
    hl = Counter(True)
    st2 = explore.explore(hl, [{"threads": 2}], 2, jobs=1)
    assert not st2.violations, st2.violations
    assert len(st2.outcomes) == 1
    sched.unmonitor()
    print("selftest_b ok: executions bound0=%d bound1=%d locked-bound2=%d" % (
        st0.executions, st1.executions, st2.executions))


if __name__ == "__main__":
    main()
