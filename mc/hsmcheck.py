"""Generic Engine-A sweep: enumerate specs per forest, run every spec on the
real processor under each (host, family, style) variant and compare with the
reference model."""
from mc.common import Violation, pmap, ncpu
from mc import hsmrun

VARIANTS_ALL = [("plain", "plain"), ("instrumented", "spied"), ("queued", "spied"), ("queued", "plain"),
                ("queued_off", "spied")]


def mixed_style(n):
    return tuple((5, 3, 6, 0, 7, 1, 2, 4, 7, 0, 5, 3)[i % 12] for i in range(n))


def _cost(parent):
    """~ number of single-step scenarios of this forest"""
    n = len(parent)
    nch = [1] * n
    for x in range(n - 1, -1, -1):      # children have larger indices
        y = parent[x]
        while y >= 0:
            nch[y] += nch[x]
            y = parent[y]
    dep = [0] * n
    for x in range(n):
        dep[x] = 1 + (dep[parent[x]] if parent[x] >= 0 else 0)
    return sum(dep) * sum(nch) + 50


def split(fl, k):
    fl = sorted(fl, key=_cost, reverse=True)
    buckets = [[] for _ in range(k)]
    cost = [0] * k
    for f in fl:
        i = cost.index(min(cost))
        buckets[i].append(f)
        cost[i] += _cost(f)
    return [b for b in buckets if b]


def _work(task):
    pid, gen, parents, variants, styles, shard, fields = task
    si, sk = shard if shard else (0, 1)
    idx = -1
    nscen = ntrans = nviol = 0
    viol = []
    nstates = nnontrivial = 0
    sample = None
    for parent in parents:
        n = len(parent)
        states = set()      # per forest, so memory is reused instead of grown
        for base, is_nontrivial in gen(parent):
            idx += 1
            if idx % sk != si:
                continue
            ref = hsmrun.run_ref(hsmrun.norm(base)) if "ref" not in base else base.pop("ref")
            for (host, fam) in variants:
                for style in styles:
                    spec = dict(base, host=host, family=fam, style=style(n) if style else None)
                    impl = hsmrun.run_impl(spec)
                    nscen += 1
                    ntrans += max(1, len(impl) - 1)
                    d = hsmrun.first_diff(impl, ref, fields)
                    if d is not None:
                        k, field, a, b = d
                        key = "%s/%s/%s" % (pid, "step" if k else "start", field)
                        nviol += 1
                        if sum(1 for v in viol if v["key"] == key) < 3:
                            viol.append(Violation(key, "%s differs at step %d: impl=%r ref=%r" % (field, k, a, b),
                                                  hsmrun.dump(spec)).to_json())
            ik = tuple(sorted(base["init"].items()))
            for o in ref:
                states.add((ik, o["state"]))
            if is_nontrivial:       # specs are generated without repetition: distinct by construction
                nnontrivial += 1
            if sample is None and is_nontrivial:
                sample = {"spec": hsmrun.dump(dict(base, host=variants[0][0], family=variants[0][1], style=None)),
                          "expected": ref}
        nstates += len(states)
    if shard:       # the parent merges the state sets of the shards of one forest
        nstates = (parents[0], frozenset(states))
    return nscen, ntrans, viol, nviol, nstates, nnontrivial, sample


def sweep(res, plans, fields=hsmrun.CORE_FIELDS):
    """plans: list of (gen, forests, variants, styles).  Adds to res."""
    tasks = []
    jobs = ncpu() * 4
    for gen, fl, variants, styles in plans:
        w = len(variants) * len(styles) * (3 if variants[0][0] != "plain" else 1)
        total = sum(_cost(f) for f in fl) * w
        unit = max(total // jobs, 1)
        small = []
        for f in fl:
            c = _cost(f) * w
            if c > 2 * unit:            # one forest worth several tasks: shard its scenarios
                k = min(64, c // unit + 1)
                for i in range(k):
                    tasks.append((c // k, (res.pid, gen, [f], variants, styles, (i, k), fields)))
            else:
                small.append(f)
        for b in split(small, jobs):
            tasks.append((sum(_cost(f) for f in b) * w, (res.pid, gen, b, variants, styles, None, fields)))
    tasks.sort(key=lambda t: -t[0])
    tasks = [t[1] for t in tasks]
    out = pmap(_work, tasks)
    cov = res.coverage
    ev = sum(o[0] for o in out)
    cov["evaluations"] = cov.get("evaluations", 0) + ev
    cov["traces_validated_against_impl"] = cov.get("traces_validated_against_impl", 0) + ev
    cov["transitions"] = cov.get("transitions", 0) + sum(o[1] for o in out)
    merged = {}
    for o in out:
        if isinstance(o[4], tuple):
            merged.setdefault(o[4][0], set()).update(o[4][1])
    cov["states"] = (cov.get("states", 0) + sum(o[4] for o in out if not isinstance(o[4], tuple))
                     + sum(len(v) for v in merged.values()))
    cov["distinct_nontrivial"] = cov.get("distinct_nontrivial", 0) + sum(o[5] for o in out)
    cov.setdefault("samples", [])
    cov["samples"] += [o[6] for o in out if o[6]][:2]
    for o in out:
        for v in o[2]:
            res.add(Violation.from_json(v))
    return out


def replay_generic(pid, witness, fields=hsmrun.CORE_FIELDS):
    from mc.common import Result
    res = Result(pid)
    spec = hsmrun.norm(witness)
    impl, ref = hsmrun.run_impl(spec), hsmrun.run_ref(spec)
    d = hsmrun.first_diff(impl, ref, fields)
    print("impl:", impl)
    print("ref: ", ref)
    if d:
        k, field, a, b = d
        res.add(Violation("%s/%s/%s" % (pid, "step" if k else "start", field),
                          "%s differs at step %d: impl=%r ref=%r" % (field, k, a, b), witness))
    return res
