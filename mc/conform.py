"""Conformance of the Engine-B stand-ins with the stdlib primitives they replace.

Every single-threaded operation sequence up to a depth over a small alphabet
of non-blocking operations is run on the stand-in (inside a scheduler with one
thread) and on the real primitive; return values and exception types must
agree.  A mismatch is a tooling error: the explorer would be exploring a
different program."""
import itertools, queue, threading
from mc import sched
from mc.common import ToolingError


def _res(f):
    try:
        r = f()
        if isinstance(r, (int, bool, str, type(None))):
            return ("ok", r)
        return ("ok", type(r).__name__)
    except BaseException as e:  # noqa
        if isinstance(e, sched.ExecutionAbort):
            raise
        return ("raise", type(e).__name__)


QUEUE_OPS = {
    "put1": lambda q: q.put(1, block=False),
    "put2": lambda q: q.put_nowait(2),
    "put0": lambda q: q.put((0, "x"), block=True, timeout=0.0) if False else q.put(0, False),
    "get": lambda q: q.get_nowait(),
    "get_t0": lambda q: q.get(True, 0.0) if False else q.get(False),
    "qsize": lambda q: q.qsize(),
    "empty": lambda q: q.empty(),
    "full": lambda q: q.full(),
    "task_done": lambda q: q.task_done(),
    "unfinished": lambda q: q.unfinished_tasks,
    "neg_timeout": lambda q: q.get(True, -1) if q.qsize() == 0 else None,
}
EVENT_OPS = {
    "set": lambda e: e.set(), "clear": lambda e: e.clear(), "is_set": lambda e: e.is_set(),
    "wait0": lambda e: e.wait(0), "wait_t": lambda e: e.wait(0.0),
}
RLOCK_OPS = {
    "acq": lambda l: l.acquire(blocking=False), "acq2": lambda l: l.acquire(False),
    "rel": lambda l: l.release(), "enter": lambda l: l.__enter__(), "exit": lambda l: l.__exit__(None, None, None),
}
LOCK_OPS = {
    "acq": lambda l: l.acquire(blocking=False), "rel": lambda l: l.release(), "locked": lambda l: l.locked(),
}


def _sequences(ops, depth):
    names = sorted(ops)
    for d in range(1, depth + 1):
        yield from itertools.product(names, repeat=d)


def _compare(kind, make_real, make_standin, ops, depth):
    n = 0
    for seq in _sequences(ops, depth):
        real = make_real()
        s = sched.Scheduler(horizon=10 ** 6)
        sched.ACTIVE = s
        try:
            mine = make_standin()
            a = [_res(lambda: ops[o](real)) for o in seq]
            b = [_res(lambda: ops[o](mine)) for o in seq]
        finally:
            s.finish()
            sched.ACTIVE = None
        n += 1
        if a != b:
            raise ToolingError("stand-in %s does not conform to the stdlib primitive on %r: stdlib %r, stand-in %r" % (kind, seq, a, b))
    return n


def _threads():
    """start/join/is_alive/name/daemon behaviour of CThread vs threading.Thread on the forms miros uses"""
    import uuid
    out = []
    for cls in (threading.Thread, sched.CThread):
        s = sched.Scheduler(horizon=10 ** 6)
        sched.ACTIVE = s
        try:
            r = []
            done = []
            cur = threading.current_thread if cls is threading.Thread else sched.current_thread
            t = cls(target=lambda: done.append(cur().name), args=(), daemon=True)
            r.append(("outside", cur().name))
            r.append(_res(lambda: t.join()))                     # join before start
            r.append(_res(lambda: t.is_alive()))
            t.name = uuid.UUID(int=5)
            r.append(("name", t.name))
            r.append(_res(lambda: t.start()))
            r.append(_res(lambda: t.join()))
            r.append(_res(lambda: t.is_alive()))
            r.append(_res(lambda: t.start()))                    # start twice
            r.append(("ran", list(done)))
            r.append(("daemon", t.daemon))
            out.append(r)
        finally:
            s.finish()
            sched.ACTIVE = None
    if out[0] != out[1]:
        raise ToolingError("stand-in CThread does not conform: threading.Thread %r, CThread %r" % (out[0], out[1]))
    return 1


def main(depth=4):
    n = 0
    for maxsize in (0, 1, 2):
        n += _compare("CQueue(maxsize=%d)" % maxsize, lambda: queue.Queue(maxsize), lambda: sched.CQueue(maxsize), QUEUE_OPS, depth if maxsize else depth - 1)
    n += _compare("CPriorityQueue", lambda: queue.PriorityQueue(), lambda: sched.CPriorityQueue(), QUEUE_OPS, depth - 1)
    n += _compare("CEvent", threading.Event, sched.CEvent, EVENT_OPS, depth)
    n += _compare("CRLock", threading.RLock, sched.CRLock, RLOCK_OPS, depth)
    n += _compare("CLock", threading.Lock, sched.CLock, LOCK_OPS, depth)
    n += _threads()
    return n


if __name__ == "__main__":
    print("conformance ok: %d sequences" % main())
