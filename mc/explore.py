"""Stateless, deviation-bounded depth-first exploration (CHESS recipe) on top
of mc.sched.  A *harness* is an object with

  name                      str
  setup_process()           once per worker process (install stand-ins, monitoring)
  body(s, params)           runs in the main virtual thread; returns an observation (JSON-able)
  check(params, ex)         -> list[(key, what)] violations of one execution
  horizon, time_horizon     ints/floats (optional)
  fingerprint(params)       optional -> callable for state counting
"""
import os, time, json, hashlib
import multiprocessing as mp
from mc import sched
from mc.common import ToolingError, pmap, ncpu, known_findings

STOP = mp.get_context("fork").Value("b", 0)     # set by the first worker that finds a new (unlisted) violation


class Execution:
    __slots__ = ("prefix", "trace", "verdict", "obs", "log", "steps", "switches", "thread_exceptions",
                 "fps", "cost", "points", "now")

    def choices(self):
        return [(c, n) for (c, n, costs, label) in self.trace]

    def summary(self):
        return {"choices": [c for (c, n, _, _) in self.trace], "verdict": self.verdict, "cost": self.cost,
                "steps": self.steps, "switches": self.switches}


def run_execution(harness, params, prefix):
    s = sched.Scheduler(prefix=prefix, horizon=getattr(harness, "horizon", 4000),
                        time_horizon=(params.get("time_horizon") if isinstance(params, dict) and "time_horizon" in params
                                      else getattr(harness, "time_horizon", None)),
                        fair_k=getattr(harness, "fair_k", 150))
    fp = getattr(harness, "fingerprint", None)
    s.lock_points = getattr(harness, "lock_points", True)
    s.free_cost = getattr(harness, "free_cost", 0)
    s.fair_stay_cost = getattr(harness, "fair_stay_cost", 0)
    s.intra_cost = getattr(harness, "intra_cost", 1)
    pol = getattr(harness, "policy", None)
    if pol is not None:
        s.policy = pol(params)
    sched.ACTIVE = s
    if fp is not None:
        s.fingerprint = fp(params, s)
    else:
        s.fingerprint = _no_shared_state     # states = distinct vectors of thread positions (a body may install a richer one)
    obs = None
    try:
        try:
            obs = harness.body(s, params)
        except sched.ExecutionAbort:
            obs = {"aborted": s.verdict}
            ab = getattr(harness, "on_abort", None)
            if ab is not None:
                obs.update(ab(s, params) or {})
    finally:
        try:
            s.finish()
        finally:
            sched.ACTIVE = None
    if s.divergence:
        raise ToolingError("replay divergence in harness %s params %r prefix %r: %s" % (
            harness.name, params, [c for c, n in prefix], s.divergence))
    ex = Execution()
    ex.prefix, ex.trace, ex.verdict, ex.obs, ex.log = list(prefix), s.trace, s.verdict, obs, s.log
    ex.steps, ex.switches, ex.thread_exceptions, ex.fps = s.steps, s.switches, s.thread_exceptions, s.fps
    ex.points, ex.now = s.points_in_window, s.now
    ex.cost = sum(costs[c] for (c, n, costs, label) in s.trace)
    return ex


def _no_shared_state():
    return 0


def children(ex, bound, expand_limit=600):
    """prefixes that deviate from ex once more, after its own prefix, within the bound.
    Choice points beyond `expand_limit` are not expanded (only executions that run into
    the step horizon get that long; what lies beyond is reported as capped)."""
    out = []
    cum = 0
    tr = ex.trace
    base = [(c, n) for (c, n, _, _) in tr]
    for i, (c, n, costs, label) in enumerate(tr):
        if i >= expand_limit:
            break
        if i >= len(ex.prefix):
            for alt in range(n):
                if alt != c and cum + costs[alt] <= bound + 1e-9:
                    out.append(tuple(base[:i]) + ((alt, n),))
        cum += costs[c]
    return out


class Stats:
    def __init__(self):
        self.executions = 0
        self.steps = 0
        self.nontrivial = 0
        self.fps = set()
        self.outcomes = {}
        self.verdicts = {}
        self.max_cost = 0
        self.violations = []     # (key, what, witness)
        self.sample = None
        self.capped = False
        self.stopped_early = False
        self.audit = None

    def merge(self, o):
        self.executions += o.executions
        self.steps += o.steps
        self.nontrivial += o.nontrivial
        self.fps |= o.fps
        for k, v in o.outcomes.items():
            self.outcomes[k] = self.outcomes.get(k, 0) + v
        for k, v in o.verdicts.items():
            self.verdicts[k] = self.verdicts.get(k, 0) + v
        self.max_cost = max(self.max_cost, o.max_cost)
        self.violations += o.violations
        self.sample = self.sample or o.sample
        self.capped = self.capped or o.capped
        self.stopped_early = self.stopped_early or o.stopped_early


def _account(st, harness, params, ex):
    st.executions += 1
    st.steps += ex.points
    st.fps |= ex.fps
    if ex.cost > 0:         # the schedule deviates from the default one (each prefix is explored once)
        st.nontrivial += 1
    st.verdicts[ex.verdict] = st.verdicts.get(ex.verdict, 0) + 1
    st.max_cost = max(st.max_cost, ex.cost)
    ok = json.dumps(ex.obs, sort_keys=True, default=repr)
    h = hashlib.sha1(ok.encode()).hexdigest()[:12]
    st.outcomes[h] = st.outcomes.get(h, 0) + 1
    for key, what in harness.check(params, ex):
        if sum(1 for v in st.violations if v[0] == key) < 2:
            # confirm: the same prefix must reproduce the same observation twice
            full = tuple(ex.choices())
            for _ in range(2):
                ex2 = run_execution(harness, params, full)
                ok2 = json.dumps(ex2.obs, sort_keys=True, default=repr)
                if ok2 != ok or ex2.verdict != ex.verdict:
                    raise ToolingError("violation not reproducible under replay (harness %s params %r): %s vs %s" % (
                        harness.name, params, ok[:300], ok2[:300]))
            last = max([i for i, c in enumerate(full) if c[0] != 0] or [-1])
            st.violations.append((key, what, {"harness": harness.name, "params": params,
                                              "harness_cfg": {"mode": getattr(harness, "mode", None), "codes": getattr(harness, "codes", None),
                                                              "intra_cost": getattr(harness, "intra_cost", 1),
                                                              "fair_k": getattr(harness, "fair_k", None)},
                                              "choices": [list(x) for x in full[:last + 1]], "cost": ex.cost,
                                              "deviations_at": [(i, ex.trace[i][3]) for i, c in enumerate(full) if c[0] != 0],
                                              "verdict": ex.verdict, "obs": ex.obs}))
    if st.sample is None and ex.switches > 0:
        st.sample = {"harness": harness.name, "params": params, "choices": [c for c, n in ex.choices()],
                     "labels": [l for (_, _, _, l) in ex.trace][:40], "obs": ex.obs}


def dfs(harness, params, roots, bound, st, max_exec=None, deadline=None, known=()):
    stack = list(roots)
    while stack:
        if (max_exec is not None and st.executions >= max_exec) or (deadline and time.time() > deadline):
            st.capped = True
            return
        if STOP.value:
            st.capped = True
            st.stopped_early = True
            return
        prefix = stack.pop()
        ex = run_execution(harness, params, prefix)
        _account(st, harness, params, ex)
        if any(v[0] not in known for v in st.violations):
            STOP.value = 1          # a new violation decides the check: stop the whole exploration
        if ex.verdict == "horizon":
            # do not branch inside the non-terminating tail
            stack.extend(children(ex, bound, expand_limit=getattr(harness, "expand_limit", 300)))
        else:
            stack.extend(children(ex, bound))


_T0 = time.time()


def explore(harness, param_list, bound, max_exec_per_param=None, deadline=None, jobs=None, budget_s=None):
    """explore every params in param_list to the deviation bound, in parallel.
    budget_s: wall-clock budget; when it runs out the exploration stops and reports capped (exhaustive false).
    Returns Stats."""
    if budget_s is None and deadline is None:
        # no exploration runs without a wall-clock limit: on a loaded machine a thorough-tier exploration ends as "capped"
        # (exhaustive false in the evidence, what was covered is reported) instead of tripping the pool watchdog
        budget_s = float(os.environ.get("VERIF_EXPLORE_BUDGET", "1500"))
    if budget_s is not None:
        deadline = time.time() + budget_s
    # ... and the whole check process has one too (well inside the timeout of the registered command)
    left = _T0 + float(os.environ.get("VERIF_CHECK_BUDGET", "9000")) - time.time()
    if deadline is None or deadline - time.time() > left:
        budget_s = max(30.0, left)
        deadline = time.time() + budget_s
    pool_timeout = 3000 if budget_s is None else budget_s + 900
    jobs = jobs or ncpu()
    STOP.value = 0
    known = set(f["key"] for f in known_findings() if f.get("status") == "known")

    def seed_work(params):
        # breadth-first expansion near the root until there are enough independent subtrees to share out
        harness.setup_process()
        st = Stats()
        b = params.get("bound", bound)
        frontier = [()]
        want = max(48, (jobs * 12) // max(1, len(param_list)))
        while frontier and len(frontier) < want and not STOP.value:
            prefix = frontier.pop(0)
            ex = run_execution(harness, params, prefix)
            _account(st, harness, params, ex)
            if any(v[0] not in known for v in st.violations):
                STOP.value = 1
            lim = getattr(harness, "expand_limit", 300) if ex.verdict == "horizon" else 600
            frontier.extend(children(ex, b, expand_limit=lim))
        return st, frontier

    def sub_work(task):
        params, roots = task
        harness.setup_process()
        st = Stats()
        dfs(harness, params, roots, params.get("bound", bound), st, max_exec_per_param, deadline, known)
        return st

    total = Stats()
    seeds = pmap(seed_work, param_list, jobs, timeout=pool_timeout)
    tasks = []
    for params, (st, kids) in zip(param_list, seeds):
        total.merge(st)
        for r in kids:
            tasks.append((params, [r]))
    # heavy subtrees first: deeper bounds and shorter prefixes (closer to the root) are bigger
    tasks.sort(key=lambda t: (-t[0].get("bound", bound), sum(1 for c, n in t[1][0] if c), len(t[1][0])))
    for st in pmap(sub_work, tasks, jobs, timeout=pool_timeout):
        total.merge(st)
    try:
        total.audit = audit(harness, param_list, jobs)
    except ToolingError as e:
        total.audit = {"error": str(e)[:300]}
    return total


def extra(st, harness, param_list, bound, budget_s, what):
    """an additional exploration under a wall-clock budget whose violations count but whose completion does not affect
    the main claim: merged into st, returns a dict for the evidence"""
    st2 = explore(harness, param_list, bound, budget_s=budget_s)
    capped = st.capped
    audit = st.audit
    st.merge(st2)
    st.capped = capped
    st.audit = audit
    return {"what": what, "executions": st2.executions, "completed": not st2.capped, "budget_s": budget_s,
            "distinct_outcomes": len(st2.outcomes), "bound": bound}


def hybrid(harness):
    """instruction granularity with the rule 'two preemptions, at most one of them inside a source line' (bound 2.015)"""
    harness.intra_cost = 1.01
    return harness


AUDIT_TOOL = 4


def audit_one(harness, params):
    """One default-schedule execution with LINE events on every miros code object: which code objects did two or more
    virtual threads execute inside the race window without being scheduling-point code of this harness?  Those are the
    places where a race could hide from the exploration (reported in the evidence, see DESIGN 4.1)."""
    import sys
    import miros.activeobject as m1, miros.event as m2, miros.singleton as m3, miros.thread_safe_attributes as m4, miros.hsm as m5
    harness.setup_process()
    mon = sys.monitoring
    codes = sched.code_objects_of(m1, m2, m3, m4, m5)
    seen = {}

    def on_line(code, line):
        s = sched.ACTIVE
        if s is None or not s.window:
            return
        me = s.by_ident.get(sched._get_ident())
        if me is not None:
            seen.setdefault(code, set()).add(me.tid)

    mon.use_tool_id(AUDIT_TOOL, "mc-audit")
    try:
        mon.register_callback(AUDIT_TOOL, mon.events.LINE, on_line)
        for co in codes:
            mon.set_local_events(AUDIT_TOOL, co, mon.events.LINE)
        run_execution(harness, params, ())
    finally:
        for co in codes:
            mon.set_local_events(AUDIT_TOOL, co, 0)
        mon.register_callback(AUDIT_TOOL, mon.events.LINE, None)
        mon.free_tool_id(AUDIT_TOOL)
    monitored = set(sched._mon_state["codes"])
    shared = {co for co, tids in seen.items() if len(tids) >= 2}
    return {"shared_monitored": sorted(co.co_qualname for co in shared if co in monitored),
            "shared_unmonitored": sorted(co.co_qualname for co in shared if co not in monitored)}


def audit(harness, param_list, jobs=None):
    outs = pmap(lambda p: audit_one(harness, p), list(param_list), jobs or ncpu())
    mon, un = set(), set()
    for o in outs:
        mon |= set(o["shared_monitored"])
        un |= set(o["shared_unmonitored"])
    return {"code_run_by_2plus_threads_with_scheduling_points": sorted(mon),
            "code_run_by_2plus_threads_without_scheduling_points": sorted(un)}


def replay(harness, witness):
    cfg = witness.get("harness_cfg") or {}
    # the witness may come from a pass at another granularity / code set than the default harness of the check
    if cfg.get("mode") and hasattr(harness, "mode"):
        harness.mode = cfg["mode"]
    if cfg.get("codes") is not None and hasattr(harness, "codes") and isinstance(cfg["codes"], (str, list)):
        harness.codes = cfg["codes"]
    if cfg.get("intra_cost"):
        harness.intra_cost = cfg["intra_cost"]
    if hasattr(harness, "_ready"):
        harness._ready = False
    harness.setup_process()
    prefix = tuple((c, n) for c, n in witness["choices"])
    ex = run_execution(harness, witness["params"], prefix)
    return ex, harness.check(witness["params"], ex)
