"""Brute-force linearisability of posts against a reference double-ended queue.

posts: list of dicts {label, inv, ret, side}  side in 'back' | 'front' | None (either)
takes: list of (time, label) - the consumer removed `label` from the front at `time`
Real-time order: an operation whose interval ends before another begins must be
linearised first.  Returns True iff some linearisation replayed on a plain deque
gives every take its observed label and (if final is given) the final contents."""
from collections import deque


def linearizable(posts, takes, final=None, capacity=None):
    n = len(posts)
    order = sorted(range(n), key=lambda i: posts[i]["inv"])
    seen = set()

    def eligible_post(i, done, t_next):
        p = posts[i]
        if t_next is not None and p["inv"] > t_next:
            return False
        # every post that returned before this one was invoked must already be linearised
        for j in range(n):
            if j != i and not (done >> j) & 1 and posts[j]["ret"] < p["inv"]:
                return False
        return True

    def rec(done, k, dq):
        key = (done, k, dq)
        if key in seen:
            return False
        seen.add(key)
        if k == len(takes) and done == (1 << n) - 1:
            return final is None or list(dq) == list(final)
        t_next = takes[k][0] if k < len(takes) else None
        # perform the next take if no unlinearised post is forced before it
        if k < len(takes):
            forced = any(not (done >> j) & 1 and posts[j]["ret"] < t_next for j in range(n))
            if not forced and dq and dq[0] == takes[k][1]:
                if rec(done, k + 1, dq[1:]):
                    return True
        for i in order:
            if (done >> i) & 1 or not eligible_post(i, done, t_next):
                continue
            p = posts[i]
            # a post must not be linearised after a take that happened entirely before it
            for side in (("back", "front") if p["side"] is None else (p["side"],)):
                nd = dq + (p["label"],) if side == "back" else (p["label"],) + dq
                if capacity is not None and len(nd) > capacity:
                    continue
                if rec(done | (1 << i), k, nd):
                    return True
        return False

    return rec(0, 0, ())


def selftest():
    P = lambda l, a, b, s: {"label": l, "inv": a, "ret": b, "side": s}
    assert linearizable([P("a", 0, 1, "back"), P("b", 2, 3, "back")], [(4, "a"), (5, "b")])
    assert not linearizable([P("a", 0, 1, "back"), P("b", 2, 3, "back")], [(4, "b"), (5, "a")])
    assert linearizable([P("a", 0, 3, "back"), P("b", 1, 2, "back")], [(4, "b"), (5, "a")])
    assert linearizable([P("a", 0, 1, "back"), P("b", 2, 3, "front")], [(4, "b"), (5, "a")])
    assert not linearizable([P("a", 0, 1, "back"), P("b", 2, 3, "front")], [(4, "a"), (5, "b")])
    # a take before the post was even invoked cannot return it
    assert not linearizable([P("a", 5, 6, "back")], [(4, "a")])
    assert linearizable([P("a", 0, 1, "back"), P("b", 2, 3, "front")], [(1.5, "a"), (5, "b")])
