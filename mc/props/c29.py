"""C29 - thread-safe attribute values belong to their instance.
BFS over all create / assign / read sequences (depth <= 5) on classes with 1-2
thread-safe attributes and up to 3 instances, against a dict per instance."""
import itertools, gc
from mc.common import Result, Violation, load_miros
load_miros()
from miros.thread_safe_attributes import MetaThreadSafeAttributes

PID = "C29"
CROWD = 24


def fresh_class(nattr, tag):
    ns = {"_attributes": ["a", "b"][:nattr]}
    return MetaThreadSafeAttributes("K%s" % tag, (), ns)


def fresh_pair(tag):
    """a base class with attribute a and a subclass that adds b (its _attributes names only b: a is inherited)"""
    K = MetaThreadSafeAttributes("B%s" % tag, (), {"_attributes": ["a"]})
    K2 = MetaThreadSafeAttributes("S%s" % tag, (K,), {"_attributes": ["b"]})
    return K, K2


def fresh_delegating(tag):
    """a class with one thread-safe attribute whose instances forward unknown attribute names to their `parent`
    instance (a tree / proxy idiom): a never-assigned child must still read the default, not its parent's value"""
    def __getattr__(self, name):
        parent = self.__dict__.get("parent")
        if parent is None or name.startswith("__"):
            raise AttributeError(name)
        return getattr(parent, name)
    return MetaThreadSafeAttributes("D%s" % tag, (), {"_attributes": ["a"], "__getattr__": __getattr__})


def fresh_falsy(tag):
    """a container-like class: its instances are falsy (len 0), compare equal to each other and hash alike - an instance
    is still that instance"""
    return MetaThreadSafeAttributes("F%s" % tag, (), {"_attributes": ["a"], "__len__": lambda self: 0,
                                                     "__eq__": lambda self, other: type(other) is type(self),
                                                     "__hash__": lambda self: 7})


def ops_for(ninst, nattr):
    ops = [("new",), ("drop",)]
    for i in range(ninst):
        for a in ["a", "b"][:nattr]:
            ops.append(("read", i, a))
            for v in (1, 7):
                ops.append(("set", i, a, v))
    return ops


def run_seq(seq, nattr, tag):
    """returns (violation or None, canonical model state)"""
    if nattr == 5:          # falsy, mutually equal instances
        K, K2 = fresh_falsy(tag), None
        nattr_base = 1
    elif nattr == 4:        # delegating shape: every new instance forwards unknown names to the first one
        K, K2 = fresh_delegating(tag), None
        nattr_base = 1
    elif nattr == 3:        # inheritance shape: instances of a base class (a) and of its subclass (a, b)
        K, K2 = fresh_pair(tag)
        nattr_base = 1
    else:
        K, K2 = fresh_class(nattr, tag), None
        nattr_base = nattr
    objs, model = [], []
    for k, op in enumerate(seq):
        if op[0] == "new":
            objs.append(K())
            if nattr == 4 and len(objs) > 1:
                objs[-1].__dict__["parent"] = objs[0]
            model.append({a: 0 for a in ["a", "b"][:nattr_base]})
        elif op[0] == "new_sub":
            objs.append(K2())
            model.append({"a": 0, "b": 0})
        elif op[0] == "drop":
            # the last instance dies (and with it a crowd of short-lived ones that were assigned values): instances
            # created afterwards - very likely at the same addresses - must start from the default again
            if not objs:
                return "skip", None
            objs.pop()
            model.pop()
            crowd = [K() for _ in range(CROWD)]
            for q, o in enumerate(crowd):
                for a in ["a", "b"][:nattr_base]:
                    setattr(o, a, 1000 + q)
            del crowd, o
            gc.collect()
            fresh = [K() for _ in range(CROWD)]
            bad = [(q, a, getattr(o, a)) for q, o in enumerate(fresh) for a in ["a", "b"][:nattr_base] if getattr(o, a) != 0]
            del fresh
            if bad:
                return ("new-instance-not-0/after-drop", "after %r, of %d instances created after %d assigned ones had died, %d read a stale "
                        "value (first: instance %d %s=%r)" % (seq[:k + 1], CROWD, CROWD, len(bad), bad[0][0], bad[0][1], bad[0][2])), None
        else:
            i = op[1]
            if i >= len(objs) or op[2] not in model[i]:
                return "skip", None
            if op[0] == "set":
                setattr(objs[i], op[2], op[3])
                model[i][op[2]] = op[3]
            else:
                got = getattr(objs[i], op[2])
                if got != model[i][op[2]]:
                    return ("read", "after %r instance %d reads %s=%r, expected %r" % (seq[:k + 1], i, op[2], got, model[i][op[2]])), None
        # every instance must read its own values after every operation
        for j, o in enumerate(objs):
            for a, want in model[j].items():
                got = getattr(o, a)
                if got != want:
                    kind = "new-instance-not-0" if op[0] == "new" and j == len(objs) - 1 else "other-instance-changed" if (op[0] == "set" and j != op[1]) else "own-value"
                    return (kind, "after %r instance %d reads %s=%r, expected %r" % (seq[:k + 1], j, a, got, want)), None
    return None, tuple(tuple(sorted(m.items())) for m in model)


def run(tier):
    res = Result(PID)
    depth = 5 if tier == "quick" else 7
    n = 0
    states = 0
    samples = []
    tag = 0
    for nattr in (1, 2, 3, 4, 5):  # 3 = the inheritance shape, 4 = instances that forward unknown names to the first one,
        #                            5 = instances that are falsy and compare equal to each other
        ops = ops_for(3, 2 if nattr == 3 else (1 if nattr in (4, 5) else nattr)) + ([("new_sub",)] if nattr == 3 else [])
        seen = set()
        frontier = [[("new",)]]
        for d in range(1, depth + 1):
            nxt = []
            for seq in frontier:
                tag += 1
                v, state = run_seq(seq, nattr, tag)
                if v == "skip":
                    continue
                n += 1
                if v is not None:
                    key = "C29/%s" % v[0]
                    if sum(1 for x in res.violations if x.key == key) < 2:
                        res.add(Violation(key, v[1], {"ops": [list(o) for o in seq], "nattr": nattr}))
                    continue
                if state in seen:
                    continue
                seen.add(state)
                if len(samples) < 2 and len(seq) >= 4:
                    samples.append({"ops": [list(o) for o in seq], "model": [dict(m) for m in state]})
                if d < depth and len(state) <= 3:
                    for op in ops:
                        if op[0] in ("new", "new_sub") and len(state) >= 3:
                            continue
                        nxt.append(seq + [op])
            frontier = nxt
        states += len(seen)
    res.coverage = {"states": states, "transitions": n, "traces_validated_against_impl": n, "evaluations": n,
                    "distinct_nontrivial": states,
                    "rule": "BFS over sequences (depth <= %d) of new-instance / drop-instance (+ a crowd of 24 assigned instances dies, 24 fresh ones must read the default) / set(instance, attr, value) / read(instance, attr) on a "
                            "fresh class with 1 or 2 thread-safe attributes (and on a base class + subclass pair) and <= 3 instances; after every operation every "
                            "attribute of every instance is read back; states = distinct per-instance value maps" % depth,
                    "samples": samples, "exhaustive": True}
    return res


def replay(w):
    res = Result(PID)
    v, _ = run_seq([tuple(o) for o in w["ops"]], w["nattr"], 999999)
    print(v)
    if v and v != "skip":
        res.add(Violation("C29/%s" % v[0], v[1], w))
    return res
