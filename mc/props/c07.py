"""C07 - an active object's subscribe/publish work in every configuration:
spied or plain states, subscription before start_at / after it from outside /
from inside a handler, publication from outside / from a handler / before the
publisher's start_at, whatever other objects already subscribed.

The whole configuration matrix is run on real active objects under the
controlled scheduler (default schedule), and a subset under every schedule with
<= k preemptions.  Oracle: every object whose subscription had taken effect
before the publication entered the fabric dispatches the event exactly once per
subscription kind; an object that never subscribed never sees it."""
import itertools
from mc.common import Result, Violation, ToolingError
from mc import sched, aoenv, explore, aoharness as H
from mc.props.c05 import fill
from miros.event import Event

PID = "C07"
CODES = H.QUEUE_CORE + ["ActiveFabricSource.thread_runner", "ActiveFabricSource.publish", "ActiveFabricSource.subscribe",
                        "ActiveObject.subscribe", "ActiveObject.publish", "ActiveObject._subscribe", "ActiveObject._publish",
                        "ActiveObject.top", "ActiveObject.subscribed"]


class PubSub:
    name = "c07"
    horizon = 8000
    lock_points = False
    fair_k = 80

    def __init__(self, mode="line"):
        self.mode, self._ready = mode, False

    def setup_process(self):
        if not self._ready:
            aoenv.install()
            sched.monitor(H.pick_codes(CODES), self.mode)
            self._ready = True

    def body(self, s, p):
        aoenv.reset()
        kind = p["kind"]
        sub_script = {"SUBME": [("subscribe", "P", kind)]}
        pub_script = {"PUBME": [("publish", "P", "pub")]}
        st_s = H.make_state(name="s_state", script=sub_script, spied=p["spied_s"])
        st_p = H.make_state(name="p_state", script=pub_script, spied=p["spied_p"])
        st_o = H.make_state(name="o_state", spied=True)
        st_b = H.make_state(name="b_state", spied=p["spied_s"])
        S = H.new_ao("S", st_s, start=False)
        Pu = H.new_ao("P", st_p, start=False)
        B = H.new_ao("B", st_b)          # never subscribes
        O = None
        if p["prior"] == "other-object":
            O = H.new_ao("O", st_o, start=False)
            O.subscribe(Event(signal="P"), queue_type=kind)
            O.start_at(st_o)
        elif p["prior"] == "other-object-at-the-same-time":
            O = H.new_ao("O", st_o)         # started, subscribes from another thread while S subscribes
        O2 = None
        if p.get("pub_during"):
            # two objects are already subscribed and a publication is being delivered to them while S subscribes
            O2 = H.new_ao("O2", H.make_state(name="o2_state", spied=False), start=False)
            O2.subscribe(Event(signal="P"), queue_type=kind)
            O2.start_at(H.make_state(name="o2_state", spied=False))
        s.settle()
        if p.get("pub_before"):
            # the signal has already been published (and delivered to the earlier subscriber) before S subscribes
            B.publish(Event(signal="P", payload="early"))
            s.settle()
        if p.get("window") == "all":
            s.open_window()
        if p["prior"] == "same-object-other-kind":
            other_kind = "lifo" if (kind or "fifo") == "fifo" else "fifo"
            S.subscribe(Event(signal="P"), queue_type=other_kind)
        # --- the subscription
        racer = None
        if p["prior"] == "other-object-at-the-same-time":
            s.settle()
            if not s.window:
                s.open_window()
            racer = sched.CThread(target=lambda: O.subscribe(Event(signal="P"), queue_type=kind), name="racer")
            racer.start()
        if p.get("pub_during"):
            S.start_at(st_s)
            s.settle()
            s.open_window()
            B.publish(Event(signal="P", payload="during"))     # not settled: the delivery threads are at work
            if p["sub"] == "after-start":
                S.subscribe(Event(signal="P"), queue_type=kind)
            else:
                S.post_fifo(Event(signal="SUBME", payload="go"))
            s.settle()
            s.window = False        # the race is over: what follows runs under the default schedule
        elif p["sub"] == "before-start":
            S.subscribe(Event(signal="P"), queue_type=kind)
            S.start_at(st_s)
        elif p["sub"] == "after-start":
            S.start_at(st_s)
            if p.get("settle_between", True):
                s.settle()
            S.subscribe(Event(signal="P"), queue_type=kind)
        elif p["sub"] == "in-handler":
            S.start_at(st_s)
            S.post_fifo(Event(signal="SUBME", payload="go"))
        elif p["sub"] == "by-number":
            S.start_at(st_s)
            s.settle()
            S.subscribe(Event(signal="P").signal, queue_type=kind)
        s.settle()
        sub_done = s.steps
        if p.get("window") == "publish":
            s.open_window()
        # --- the publication
        if p["pub"] == "outside":
            Pu.start_at(st_p)
            s.settle()
            Pu.publish(Event(signal="P", payload="pub"))
        elif p["pub"] == "in-handler":
            Pu.start_at(st_p)
            Pu.post_fifo(Event(signal="PUBME", payload="go"))
        elif p["pub"] == "before-start":
            Pu.publish(Event(signal="P", payload="pub"))
            Pu.start_at(st_p)
        elif p["pub"] == "by-subscriber":       # the subscriber publishes to itself
            Pu.start_at(st_p)
            S.publish(Event(signal="P", payload="pub"))
        s.settle()

        def got(name):
            return [x[5] for x in s.log if x[3] == "rtc-begin" and x[4] == name and x[5] == "P/pub"]
        def got_during(name):
            return len([x for x in s.log if x[3] == "rtc-begin" and x[4] == name and x[5] == "P/during"])
        return {"S": len(got("S")), "O": len(got("O")) if O is not None else None, "B": len(got("B")), "P": len(got("P")),
                "O2": len(got("O2")) if O2 is not None else None,
                "during": {n: got_during(n) for n in ("S", "O", "O2", "B", "P")} if p.get("pub_during") else None,
                "registry": {k: {sig: len(v) for sig, v in sorted(r.items())} for k, r in
                             (("fifo", S.fabric.fifo_subscriptions), ("lifo", S.fabric.lifo_subscriptions))},
                "alive": sorted(t.name for t in s.threads if t.started and not t.finished and t.name in ("S", "P", "B", "O")),
                "thread_exceptions": [x[:3] for x in s.thread_exceptions]}

    def on_abort(self, s, p):
        return {"threads": [x for x in s.snapshot if not x[2]][:10], "thread_exceptions": [x[:3] for x in s.thread_exceptions]}

    def check(self, p, ex):
        cfg = "spied_s=%s/sub=%s" % (p["spied_s"], p["sub"])
        if ex.verdict != "done":
            return [("%s/%s/%s" % (PID, ex.verdict, cfg), "ended with %s: %r" % (ex.verdict, ex.obs))]
        o = ex.obs
        out = []
        if o["thread_exceptions"]:
            out.append(("%s/exception/%s" % (PID, cfg), "%r" % (o["thread_exceptions"],)))
        want_s = 2 if p["prior"] == "same-object-other-kind" else 1
        if o["S"] != want_s:
            why = "prior=%s" % p["prior"] if (p["prior"] != "none" and p["spied_s"] and p["spied_p"]) else \
                ("plain-subscriber" if not p["spied_s"] else ("plain-publisher" if not p["spied_p"] else "spied"))
            out.append(("%s/subscriber-%s/%s/sub=%s/pub=%s" % (PID, "missed" if o["S"] < want_s else "duplicate", why, p["sub"], p["pub"]),
                        "subscriber (spied=%s, subscribed %s, kind %s, prior subscribers: %s) dispatched the publication (publisher spied=%s, "
                        "published %s) %d times, expected %d; registry %r" % (p["spied_s"], p["sub"], p["kind"], p["prior"], p["spied_p"],
                                                                             p["pub"], o["S"], want_s, o["registry"])))
        if o["O"] not in (None, 1):
            out.append(("%s/prior-subscriber-%s" % (PID, "missed" if o["O"] < 1 else "duplicate"),
                        "the object that had subscribed earlier dispatched the publication %d times (config %r)" % (o["O"], p)))
        if o.get("O2") not in (None, 1):
            out.append(("%s/prior-subscriber-%s" % (PID, "missed" if o["O2"] < 1 else "duplicate"),
                        "the second object that had subscribed earlier dispatched the publication %d times (config %r)" % (o["O2"], p)))
        d = o.get("during")
        if d:
            # the publication that was being delivered while S subscribed: owed to the two earlier subscribers exactly once,
            # S may or may not see it, nobody else does
            if d["O"] != 1 or d["O2"] != 1 or d["S"] > 1 or d["B"] or d["P"]:
                out.append(("%s/publication-in-flight" % PID, "a publication being delivered while another object subscribed was dispatched "
                            "%r times (earlier subscribers O and O2 are owed exactly one each; config %r)" % (d, p)))
        if o["B"] != 0 or o["P"] != 0:
            out.append(("%s/stray" % PID, "objects that never subscribed dispatched the publication: bystander %d, publisher %d (config %r)" % (
                o["B"], o["P"], p)))
        return out


def matrix():
    ps = []
    for spied_s, spied_p, sub, pub, prior, kind in itertools.product(
            (True, False), (True, False), ("before-start", "after-start", "in-handler", "by-number"),
            ("outside", "in-handler", "before-start", "by-subscriber"), ("none", "other-object", "same-object-other-kind"),
            ("fifo", "lifo", None)):
        if kind is None and (prior != "none" or sub == "by-number"):
            continue
        ps.append({"spied_s": spied_s, "spied_p": spied_p, "sub": sub, "pub": pub, "prior": prior, "kind": kind, "bound": 0})
    return ps


def params(tier):
    q = tier == "quick"
    ps = matrix()
    # the same matrix rows with another object subscribed earlier and a publication already delivered to it
    ps += [dict(p, pub_before=True) for p in matrix() if p["prior"] == "other-object" and p["spied_s"] and p["spied_p"] and p["kind"] is not None]
    # preemption-bounded part: the publication races the delivery threads and the objects' own threads
    sel = []
    for p in ps:
        if p["kind"] != "fifo":
            continue
        if q and not (p["spied_s"] == p["spied_p"] and p["prior"] != "same-object-other-kind" and p["pub"] != "by-subscriber"
                      and p["sub"] != "by-number"):
            continue
        sel.append(dict(p, bound=1, window="publish"))
    extra = [dict(p, bound=1, window="all", settle_between=False) for p in ps
             if p["kind"] == "fifo" and p["spied_s"] and p["spied_p"] and p["pub"] == "outside" and p["prior"] != "same-object-other-kind"
             and p["sub"] in ("before-start", "in-handler")]
    # with the window open from the start the subscription itself races: then "took effect before" only holds for
    # subscriptions made before start_at (queued ahead of everything) - keep those
    extra = [p for p in extra if p["sub"] == "before-start"]
    # two objects make the first subscription to the signal at the same time (one from another thread)
    for sub in ("after-start", "in-handler", "before-start"):
        for kind in ("fifo", "lifo"):
            extra.append({"spied_s": True, "spied_p": True, "sub": sub, "pub": "outside", "prior": "other-object-at-the-same-time",
                          "kind": kind, "bound": 1 if q else 2})
    # a publication is being delivered to two earlier subscribers while the subscription is made
    for sub in ("after-start", "in-handler"):
        for kind in ("fifo", "lifo"):
            extra.append({"spied_s": True, "spied_p": True, "sub": sub, "pub": "outside", "prior": "other-object", "pub_during": True,
                          "kind": kind, "bound": 1 if q else 2})
    if not q:
        sel += [dict(p, bound=2, window="publish") for p in ps if p["kind"] == "lifo" and p["spied_s"] and p["spied_p"]
                and p["sub"] in ("after-start", "in-handler") and p["pub"] in ("outside", "in-handler") and p["prior"] == "other-object"]
    return ps + sel + extra


def run(tier):
    res = Result(PID)
    ps = params(tier)
    st = explore.explore(PubSub("line"), ps, 0)
    nm = len(matrix())
    fill(res, st, 1 if tier == "quick" else 2, "line",
         "; configuration matrix of %d entries {spied/plain subscriber} x {spied/plain publisher} x {subscribe before start, after start, "
         "from a handler, by signal number} x {publish from outside, from a handler, before the publisher's start, by the subscriber "
         "itself} x {no prior subscriber, another object, same object other kind} x {fifo, lifo, default} run under the default "
         "schedule; %d of them additionally under every schedule with <= 1 preemption (2 for a subset in the thorough tier) of the "
         "publication window" % (nm, len(ps) - nm))
    res.coverage["configurations"] = nm
    if len(st.outcomes) < 2 and not res.violations:
        raise ToolingError("harness did not vary")
    res.assumptions = ["the subscription is settled (the subscriber idle again) before the publication is made: a publication racing "
                       "its own subscription is not constrained by the property"]
    return res


def replay(w):
    res = Result(PID)
    ex, v = explore.replay(PubSub("line"), w)
    print(ex.verdict, ex.obs)
    for key, what in v:
        res.add(Violation(key, what, w))
    return res
