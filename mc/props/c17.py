"""C17 - a chart assembled with state_method_template + register_signal_callback
/ register_parent (or Factory.create/catch/nest) behaves like the equivalent
hand-written chart, and so does the source text to_code returns for its
states when executed in place of the generated states.

Lock-step over four builds of every scenario chart (families of C01, C02, C03
x patterns of which states register entry / exit / init callbacks x two
registration orders):
  hand      table-driven hand-written-style state functions (the charts of C01-C03, validated against UML semantics)
  template  state_method_template + register_signal_callback + register_parent on a queued chart
  text      exec of to_code(state) for every state, hosted on a fresh queued chart
  factory   Factory.create/catch/nest (a real active object, controlled scheduler) - smaller charts
Compared per step: the log of callback invocations (user actions), the
sequence of ENTRY/EXIT/INIT invocations taken from the spy, the resting state."""
import random
from mc.common import Result, Violation, seed, pmap, ncpu, BudgetExceeded
from mc import forests as F, hsmrun, charts, instr, sched, aoenv, explore
from mc.charts import Table, use, SIG, NAMES, ev, ENTRY, EXIT, INIT, HANDLED, UNHANDLED
from mc.hsmcheck import split, _cost, mixed_style
from mc.props import c01, c02, c03
import miros.hsm as hsm
import miros.activeobject as ao_mod
from miros.event import signals, return_status

PID = "C17"
KINDNAME = {ENTRY: "entry", EXIT: "exit", INIT: "init"}


def reg_table(spec, style):
    """which callbacks exist: {state: {signal number: (name, behaviour)}}; behaviour = ('H',) | ('T', j) | ('D',)"""
    n = len(spec["parent"])
    tab = {i: {} for i in range(n)}
    for i in range(n):
        bits = style[i] if style else 7
        if bits & 1:
            tab[i][ENTRY] = ("s%d_entry" % i, ("H",))
        if bits & 2:
            tab[i][EXIT] = ("s%d_exit" % i, ("H",))
        j = spec["init"].get(i)
        if j is not None:
            tab[i][INIT] = ("s%d_init" % i, ("T", j))
        elif bits & 4:
            tab[i][INIT] = ("s%d_init" % i, ("H",))
    for (i, name), r in spec["react"].items():
        tab[i][SIG[name]] = ("s%d_%s" % (i, name), tuple(r))
    return tab


LOG = []


def make_callback(i, sig, cbname, beh):
    label = (KINDNAME.get(sig) or charts.SIGNAME[sig], i)

    def cb(chart, e):
        LOG.append(label)
        if beh[0] == "H":
            return return_status.HANDLED
        if beh[0] == "T":
            return chart.trans(chart.mc_fns[beh[1]])
        return return_status.UNHANDLED
    cb.__name__ = cbname
    cb.__qualname__ = cbname
    return cb


def callbacks(tab):
    return {i: {sig: make_callback(i, sig, nm, beh) for sig, (nm, beh) in d.items()} for i, d in tab.items()}


def lifecycle(spy):
    """ENTRY/EXIT/INIT invocations from a spy log"""
    out = []
    for l in spy or ():
        p = l.split(":")
        if len(p) == 2 and p[0] in ("ENTRY_SIGNAL", "EXIT_SIGNAL", "INIT_SIGNAL"):
            out.append((p[0][:-7].lower(), p[1]))
    return out


def drive(h, fns, spec):
    """start + events on a queued host; per step (callback log, lifecycle from spy, state name)"""
    steps = []
    del LOG[:]
    h.mc_fns = fns
    h.start_at(fns[spec["start"]])
    steps.append((list(LOG), lifecycle(h.spy_rtc()), h.state_name))
    for name in spec["events"]:
        del LOG[:]
        h.post_fifo(ev(name))
        h.next_rtc()
        steps.append((list(LOG), lifecycle(h.spy_rtc()), h.state_name))
    return steps


def run_hand(spec, tab):
    react = {(i, SIG[n]): v for (i, n), v in spec["react"].items()}
    style = tuple((1 if ENTRY in tab[i] else 0) | (2 if EXIT in tab[i] else 0) | (4 if INIT in tab[i] else 0)
                  for i in range(len(spec["parent"])))
    t = Table(spec["parent"], init=spec["init"], react=react, style=style)
    use(t, "spied")
    h = charts.new_host("queued")
    steps = []
    h.start_at(t.S[spec["start"]])

    def filt():
        out = []
        for x in t.log:
            if x[0] in ("entry", "exit", "init"):
                sig = {"entry": ENTRY, "exit": EXIT, "init": INIT}[x[0]]
                if sig in tab[x[1]]:
                    out.append(x)
            elif x[0] in SIG and SIG[x[0]] in tab[x[1]]:
                out.append(x)
        t.log.clear()
        return out
    steps.append((filt(), lifecycle(h.spy_rtc()), h.state_name))
    for name in spec["events"]:
        h.post_fifo(ev(name))
        h.next_rtc()
        steps.append((filt(), lifecycle(h.spy_rtc()), h.state_name))
    return steps


def build_template(spec, tab, cbs, order):
    n = len(spec["parent"])
    t = Table(spec["parent"])       # only for the call budget of the counting top
    use(t, "spied")
    h = charts.new_host("queued")
    fns = [hsm.state_method_template(NAMES[i]) for i in range(n)]
    for i in (range(n) if order == "up" else range(n - 1, -1, -1)):
        for sig in sorted(cbs[i]):
            h.register_signal_callback(fns[i], sig, cbs[i][sig])
    for i in range(n):
        p = spec["parent"][i]
        h.register_parent(fns[i], h.top if p < 0 else fns[p])
    return h, fns


def build_text(spec, tab, cbs, h_template, fns):
    ns = {"spy_on": hsm.spy_on, "signals": signals, "return_status": return_status}
    for i, d in cbs.items():
        for sig, cb in d.items():
            ns[cb.__name__] = cb
    texts = []
    for i in range(len(fns)):
        txt = h_template.to_code(fns[i])
        texts.append(txt)
        exec(txt, ns)
    tfns = [ns[NAMES[i]] for i in range(len(fns))]
    t = Table(spec["parent"])
    use(t, "spied")
    h2 = charts.new_host("queued")
    return h2, tfns, texts


def compare(spec, style, order):
    """-> list[(key, what)]"""
    spec = hsmrun.norm(spec)
    tab = reg_table(spec, style)
    out = []
    try:
        hand = run_hand(spec, tab)
    except (Exception, BudgetExceeded) as e:  # noqa
        return [("hand-build-raises", "%s: %s" % (type(e).__name__, e))]
    cbs = callbacks(tab)
    runs = {}
    try:
        h, fns = build_template(spec, tab, cbs, order)
        runs["template"] = drive(h, fns, spec)
    except (Exception, BudgetExceeded) as e:  # noqa
        out.append(("template/raises/%s" % type(e).__name__, "template build: %s: %s" % (type(e).__name__, e)))
    try:
        h, fns = build_template(spec, tab, cbs, order)
        h2, tfns, texts = build_text(spec, tab, cbs, h, fns)
        runs["text"] = drive(h2, tfns, spec)
    except (Exception, BudgetExceeded) as e:  # noqa
        out.append(("text/raises/%s" % type(e).__name__, "to_code build: %s: %s" % (type(e).__name__, e)))
    # the same template state functions wired into a second chart that registers no reaction to the user signals (and the
    # other way round: first the bare chart, then the full one): a template state's reaction belongs to the chart
    try:
        spec2 = dict(spec, react={})
        tab2 = reg_table(spec2, style)
        hand2 = run_hand(spec2, tab2)
        for first in ("full", "bare"):
            h1, fns = build_template(spec, tab, cbs, order)
            t = Table(spec["parent"])
            use(t, "spied")
            h2 = charts.new_host("queued")
            cbs2 = {i: {sig: cb for sig, cb in d.items() if sig in (ENTRY, EXIT, INIT)} for i, d in cbs.items()}
            for i in range(len(fns)):
                for sig in sorted(cbs2[i]):
                    h2.register_signal_callback(fns[i], sig, cbs2[i][sig])
                pr = spec["parent"][i]
                h2.register_parent(fns[i], h2.top if pr < 0 else fns[pr])
            if first == "full":
                drive(h1, fns, spec)
                r2 = drive(h2, fns, spec2)
                want2, nm = hand2, "shared-template/second-chart-bare"
            else:
                drive(h2, fns, spec2)
                r2 = drive(h1, fns, spec)
                want2, nm = hand, "shared-template/second-chart-full"
            runs_extra = [(nm, r2, want2)]
            for nm, steps, want in runs_extra:
                for k, (a, b) in enumerate(zip(steps, want)):
                    if a[0] != b[0] or a[2] != b[2]:
                        out.append(("%s/behaviour" % nm, "step %d: callbacks %r state %r, hand-written chart %r %r" % (k, a[0], a[2], b[0], b[2])))
                        break
        # a reaction registered after the chart has already seen (and passed on) the signal
        if spec["react"] and spec["events"]:
            h1, fns = build_template(dict(spec, react={}), reg_table(dict(spec, react={}), style),
                                     {i: {sig: cb for sig, cb in d.items() if sig in (ENTRY, EXIT, INIT)} for i, d in cbs.items()}, order)
            del LOG[:]
            h1.mc_fns = fns
            h1.start_at(fns[spec["start"]])
            h1.post_fifo(ev(spec["events"][0]))
            h1.next_rtc()                                   # nothing registered yet: bubbles to top
            if h1.state_name == hand2[1][2] if len(hand2) > 1 else True:
                for i, d in cbs.items():
                    for sig, cb in d.items():
                        if sig not in (ENTRY, EXIT, INIT):
                            h1.register_signal_callback(fns[i], sig, cb)
                del LOG[:]
                h1.post_fifo(ev(spec["events"][0]))
                h1.next_rtc()
                got = (list(LOG), h1.state_name)
                want = (hand[1][0], hand[1][2])
                # same configuration as after start (the first event changed nothing), so the step must equal the hand chart's first step
                if got != want:
                    out.append(("late-registration/behaviour", "after registering the reactions late: callbacks %r state %r, hand-written chart %r %r" % (
                        got[0], got[1], want[0], want[1])))
    except (Exception, BudgetExceeded) as e:  # noqa
        out.append(("shared-template/raises/%s" % type(e).__name__, "%s: %s" % (type(e).__name__, e)))
    for name, steps in runs.items():
        for k, (a, b) in enumerate(zip(steps, hand)):
            if a[0] != b[0]:
                out.append(("%s/actions" % name, "step %d: callbacks run %r, hand-written chart %r" % (k, a[0], b[0])))
                break
            if a[2] != b[2]:
                out.append(("%s/state" % name, "step %d: rests in %r, hand-written chart in %r" % (k, a[2], b[2])))
                break
            if a[1] != b[1]:
                out.append(("%s/lifecycle" % name, "step %d: entry/exit/init invocations %r, hand-written chart %r" % (k, a[1], b[1])))
                break
    return out


STYLES = {"all": None, "none": lambda n: (0,) * n, "mixed": mixed_style,
          "mixed2": lambda n: tuple(7 - b for b in mixed_style(n))}


def _work(task):
    gen, parents = task
    n_runs = n_nt = 0
    viol = []
    states = set()
    sample = None
    for parent in parents:
        n = len(parent)
        for base, nt in gen(parent):
            for sname, sf in STYLES.items():
                style = sf(n) if sf else None
                for order in ("up", "down"):
                    n_runs += 1
                    for key, what in compare(base, style, order):
                        key = "%s/%s" % (PID, key)
                        if sum(1 for v in viol if v[0] == key) < 2:
                            viol.append((key, "style %s, registration order %s: %s" % (sname, order, what),
                                         dict(hsmrun.dump(hsmrun.norm(base)), style_name=sname, order=order)))
            states.add((parent, tuple(sorted(base["init"].items())), base["start"]))
            if nt:
                n_nt += 1
                if sample is None:
                    sample = hsmrun.dump(hsmrun.norm(base))
    return n_runs, viol, len(states), n_nt, sample


# ------------------------------------------------------------------ Factory build (active object)

class FactoryHost:
    name = "c17-factory"
    horizon = 20000
    lock_points = False
    fair_k = 10 ** 9

    def __init__(self):
        self._ready = False

    def setup_process(self):
        if not self._ready:
            aoenv.install()
            sched.unmonitor()
            self._ready = True

    def body(self, s, p):
        aoenv.reset()
        spec = hsmrun.norm(p["spec"])
        style = STYLES[p["style"]]
        n = len(spec["parent"])
        tab = reg_table(spec, style(n) if style else None)
        cbs = callbacks(tab)
        # (once the scheduler's stand-ins are installed miros code can only run inside an execution: the hand-written
        # chart is driven here too)
        hand = run_hand(spec, tab)
        f = ao_mod.Factory("fac")
        bps = []
        from mc.charts import ENTRY, EXIT, INIT
        late = []
        for i in range(n):
            bp = f.create(state=NAMES[i])
            for sig in sorted(cbs[i]):
                if p.get("late") and sig not in (ENTRY, EXIT, INIT):
                    late.append((bp, sig, cbs[i][sig]))      # caught on the running chart, after start_at
                    continue
                bp.catch(signal=sig, handler=cbs[i][sig])
            bps.append(bp)
        fns = [bp.to_method() for bp in bps]
        for i in range(n):
            pr = spec["parent"][i]
            f.nest(fns[i], parent=None if pr < 0 else fns[pr])
        f.mc_fns = fns
        steps = []
        del LOG[:]
        f.start_at(fns[spec["start"]])
        s.settle()
        steps.append((list(LOG), f.state_name))
        for bp, sig, cb in late:
            bp.catch(signal=sig, handler=cb)
        for name in spec["events"]:
            del LOG[:]
            f.post_fifo(ev(name))
            s.settle()
            steps.append((list(LOG), f.state_name))
        texts_ok = True
        try:
            for i in range(n):
                f.to_code(NAMES[i])
        except Exception as e:  # noqa
            texts_ok = "%s: %s" % (type(e).__name__, e)
        return {"steps": steps, "hand": hand, "to_code": texts_ok, "thread_exceptions": [x[:3] for x in s.thread_exceptions]}

    def on_abort(self, s, p):
        return {"threads": [x for x in s.snapshot if not x[2]][:8], "thread_exceptions": [x[:3] for x in s.thread_exceptions]}

    def check(self, p, ex):
        return []


def factory_work(ps):
    h = FactoryHost()
    h.setup_process()
    out = []
    for p in ps:
        v = []
        try:
            ex = explore.run_execution(h, p, ())
            hand = ex.obs.get("hand") if isinstance(ex.obs, dict) else None
            if ex.verdict != "done":
                v.append(("%s/factory/%s" % (PID, ex.verdict), "ended with %s: %r" % (ex.verdict, ex.obs)))
            else:
                o = ex.obs
                if o["thread_exceptions"]:
                    v.append(("%s/factory/exception" % PID, "%r" % (o["thread_exceptions"],)))
                if o["to_code"] is not True:
                    v.append(("%s/factory/to_code-raises" % PID, str(o["to_code"])))
                for k, (a, b) in enumerate(zip(o["steps"], hand)):
                    if list(map(tuple, a[0])) != b[0]:
                        v.append(("%s/factory/actions" % PID, "step %d: callbacks run %r, hand-written chart %r" % (k, a[0], b[0])))
                        break
                    if a[1] != b[2]:
                        v.append(("%s/factory/state" % PID, "step %d: rests in %r, hand-written chart in %r" % (k, a[1], b[2])))
                        break
        except Exception as e:  # noqa
            v.append(("%s/factory/raises/%s" % (PID, type(e).__name__), "%s: %s" % (type(e).__name__, e)))
        out.append((p, v))
    return out


def run(tier):
    res = Result(PID)
    N, NF = (5, 3) if tier == "quick" else (6, 4)
    rnd = random.Random(seed())
    allf = [f for n in range(1, N + 1) for f in F.forests(n)]
    rnd.shuffle(allf)
    tasks = []
    jobs = ncpu() * 3
    for gen in (c01.gen, c02.gen, c03.gen):
        for b in split(list(allf), jobs):
            tasks.append((sum(_cost(f) for f in b), (gen, b)))
    tasks.sort(key=lambda t: -t[0])
    out = pmap(_work, [t[1] for t in tasks])
    for o in out:
        for key, what, w in o[1]:
            if sum(1 for x in res.violations if x.key == key) < 2:
                res.add(Violation(key, what, w))
    ps = []
    for n in range(1, NF + 1):
        for f in F.forests(n):
            for gen in (c01.gen, c02.gen, c03.gen):
                for base, _ in gen(f):
                    for sname in ("all", "mixed"):
                        ps.append({"spec": hsmrun.dump(hsmrun.norm(base)), "style": sname})
                    if base["react"]:
                        # the reactions to user signals are caught on the running chart (after to_method, nest and start_at)
                        ps.append({"spec": hsmrun.dump(hsmrun.norm(base)), "style": "all", "late": True})
    chunks = [ps[i::ncpu() * 4] for i in range(ncpu() * 4)]
    fouts = pmap(factory_work, [c for c in chunks if c], ncpu())
    nf = 0
    for part in fouts:
        for p, v in part:
            nf += 1
            for key, what in v:
                if sum(1 for x in res.violations if x.key == key) < 2:
                    res.add(Violation(key, what, {"factory": True, "spec": p["spec"], "style": p["style"], "late": p.get("late", False)}))
    nruns = sum(o[0] for o in out)
    res.coverage = {
        "evaluations": nruns + nf, "traces_validated_against_impl": nruns + nf, "transitions": 3 * (nruns + nf),
        "states": sum(o[2] for o in out), "distinct_nontrivial": sum(o[3] for o in out),
        "samples": [o[4] for o in out if o[4]][:2],
        "factory_part": {"executions": nf, "forests_upto": NF},
        "rule": "scenario families of C01/C02/C03 on forests<=%d x 4 patterns of registered entry/exit/init callbacks x 2 registration "
                "orders; per scenario the hand-written-style chart, the template build and the exec'd to_code text are driven in "
                "lock-step (start + 2 events): callback logs, ENTRY/EXIT/INIT invocations from the spy and resting state names must "
                "agree; Factory.create/catch/nest builds on a real active object for forests<=%d" % (N, NF),
        "exhaustive": True}
    res.assumptions = ["callbacks are plain functions (chart, e); a callback named 'handled' is the documented no-op",
                       "SEARCH_FOR_SUPER / EMPTY probe lines of the spy may differ between builds and are not compared"]
    return res


def replay(w):
    res = Result(PID)
    if w.get("factory"):
        for _, v in factory_work([{"spec": w["spec"], "style": w["style"], "late": w.get("late", False)}]):
            for key, what in v:
                print(key, what)
                res.add(Violation(key, what, w))
        return res
    sf = STYLES[w["style_name"]]
    spec = hsmrun.norm(w)
    for key, what in compare(spec, sf(len(spec["parent"])) if sf else None, w["order"]):
        print(key, what)
        res.add(Violation("%s/%s" % (PID, key), what, w))
    return res
