"""C20 - the trace has one record per transition and none for other steps.

start_at appends (top -> start configuration); a later step appends exactly one
record (previous state, signal, new state) iff some offer of the event returned
a transition (read from the handlers' own invocation log), nothing for handled,
declined-then-handled and ignored events; the trace keeps the most recent
records in order (trace ring reduced to 3 in one plan); trace() renders them.
Hosts: instrumented, queued (dispatch and post+next_rtc), and an active object
including the meta events it posts to itself (subscribe/publish before start)."""
import random
from mc.common import Result, Violation, seed
from mc import forests as F, instrcheck, instr, hsmrun
from mc.props import c01, c02, c03

PID = "C20"


def variants(rings=None, names=("c",)):
    vs = [{"host": "instrumented", "family": "spied"}]
    for nm in names:
        vs += [{"host": "queued", "family": "spied", "drive": "dispatch", "chart_name": nm},
               {"host": "queued", "family": "spied", "drive": "queue", "chart_name": nm},
               {"host": "queued", "family": "spied", "drive": "queue", "live_spy": True, "live_trace": True, "chart_name": nm}]
    vs += [{"host": "queued", "family": "spied", "drive": "queue", "clear_after": 1, "live_trace": True},
           {"host": "queued", "family": "spied", "drive": "dispatch", "clear_after": 0}]
    if rings:
        # with a small ring the user also reads trace() after every step (not only at the end)
        vs = [dict(v, rings=rings) for v in vs] + [dict(v, rings=rings, trace_each=True) for v in vs if v["host"] == "queued"]
    return vs


def deep_parents(depths):
    """two chains of the given depth under one outermost state: one step between their leaves writes more step records
    (exits, entries, searches) than any chart of the forest sweep - the per-step record buffer the trace reads from is finite"""
    out = []
    for d in depths:
        par = [-1]
        for chain in range(2):
            par.append(0)
            par += [len(par) - 1 + i for i in range(d - 1)]
        out.append(tuple(par))
    return out


def gen_deep(parent):
    n = len(parent)
    d = (n - 1) // 2
    la, lb = d, 2 * d           # the two leaves
    # leaf to leaf and back; an ignored and an internally handled event in between append nothing
    yield ({"parent": parent, "init": {}, "react": {(la, "A"): ("T", lb), (lb, "A"): ("T", la), (1, "B"): ("H",)},
            "start": la, "events": ["B", "C", "A", "B", "A", "A"]}, True)
    # transition declared on the outermost state, the target reached through a full init chain
    init = {i: i + 1 for i in range(d + 1, 2 * d)}
    yield ({"parent": parent, "init": init, "react": {(0, "A"): ("T", d + 1)},
            "start": la, "events": ["A", "C", "A"]}, True)


def run(tier):
    res = Result(PID)
    N, NA = (6, 4) if tier == "quick" else (7, 5)
    rnd = random.Random(seed())
    allf = [f for n in range(1, N + 1) for f in F.forests(n)]
    rnd.shuffle(allf)
    small = [f for f in allf if len(f) <= NA]
    tiny = [f for f in allf if len(f) <= 4]
    instrcheck.sweep(res, [(c01.gen, allf, variants(), "trace", None),
                           # a user signal whose name ends like the built-in ones
                           (instrcheck._ren_c01, tiny, variants()[:3], "trace", None),
                           (instrcheck._ren_c02, tiny, variants()[:3], "trace", None),
                           (c02.gen, allf, variants(), "trace", None),
                           (c03.gen, allf, variants(names=("c", None)), "trace", None),
                           (instrcheck.gen_act, small, variants()[1:], "trace", None),
                           # trace ring of 2 records: the third step drops the start record
                           (c01.gen, tiny, variants((500, 2, 250)), "trace", None),
                           # very deep charts: one step writes several hundred step records
                           (gen_deep, deep_parents((8, 20, 30) if tier == "quick" else (8, 12, 16, 20, 24, 28, 31)), variants(), "trace", None),
                           (instrcheck.gen_act, [f for f in tiny if len(f) <= 3], variants((500, 2, 250))[1:], "trace", None)])
    from mc.props import c20ao
    c20ao.run_into(res, tier)
    res.coverage.update({
        "rule": "scenario families of C01/C02/C03 on forests<=%d, handler-script charts on forests<=%d, instrumented and queued "
                "hosts (named and unnamed), dispatch and post+next_rtc drive, default trace ring and ring of 2; per step the new "
                "trace records are compared with (previous state, signal, new state) iff an offer returned TRAN; trace() text "
                "compared with an independent rendering; active-object part: see ao_part" % (N, NA),
        "exhaustive": True})
    res.assumptions = ["'caused a transition' = some offer of the event returned TRAN (from the handlers' own log)"]
    return res


def replay(w):
    if w.get("ao"):
        from mc.props import c20ao
        return c20ao.replay(w)
    from mc.props import c18
    r = c18.replay(w)
    r.pid = PID
    for v in r.violations:
        v.key = v.key.replace("C18/", "C20/", 1)
    return r
