"""C26 - Event.dumps / Event.loads round-trip name and payload.
Exhaustive payload grammar (atoms, lists and string-keyed dicts, nesting
depth <= 3) x signal names (new, known, inner, empty, non-identifier,
non-ascii)."""
import itertools, math
from mc.common import Result, Violation, load_miros
load_miros()
from miros.event import Event, signals

PID = "C26"
ATOMS = [None, True, False, 0, -1, 2 ** 70, 0.1, -2.5e-7, 1e308, "", "a", "é ", "\ud800", "x\ny\"z\\"]
SMALL = [None, True, 0, 0.1, "", "a"]
KEYS = ["", "k", "é", "1"]
NAMES = ["C26_NEW_%d", "A", "ENTRY_SIGNAL", "SEARCH_FOR_SUPER_SIGNAL", "", "a b", "événement", "9", "None",
         # characters that need escaping in the text form
         "back\\slash", "dir\\name", "trailing\\", "quo\"ted", "tab\there", "new\nline", "\\u0041", "nul\x00", "C26 \\ %d"]
# names that are also attributes of the registry object (an OrderedDict subclass): a lookup that goes through attribute
# access instead of the mapping would find the attribute, not the signal
SHADOW = ["keys", "values", "items", "get", "pop", "clear", "update", "append", "name_for_signal", "is_inner_signal",
          "highest_inner_signal", "__class__", "__dict__", "move_to_end", "C26_NEW_%d"]


def containers(elems, keys):
    yield []
    yield {}
    for a in elems:
        yield [a]
        for k in keys:
            yield {k: a}
    for a, b in itertools.product(elems, repeat=2):
        yield [a, b]
    for (k1, k2) in itertools.combinations(keys, 2):
        for a, b in itertools.product(elems[:4], repeat=2):
            yield {k1: a, k2: b}


def payloads(depth):
    level1 = list(ATOMS)
    yield from level1
    level2 = list(containers(ATOMS, KEYS))
    yield from level2
    if depth >= 3:
        inner = SMALL + [[], {}, [0], {"k": "a"}, [None, "a"], {"": 0, "k": [1]}]
        level3 = [c for c in containers(inner, KEYS[:2]) if any(isinstance(x, (list, dict)) for x in (c.values() if isinstance(c, dict) else c))]
        yield from level3
        if depth >= 4:
            inner4 = [[[0]], {"k": {"k": None}}, [{"": []}], "a"]
            yield from containers(inner4, KEYS[:2])


def same(a, b):
    if isinstance(a, float) or isinstance(b, float):
        return type(a) is type(b) and (a == b)
    if type(a) is not type(b):
        return False
    if isinstance(a, list):
        return len(a) == len(b) and all(same(x, y) for x, y in zip(a, b))
    if isinstance(a, dict):
        return list(a.keys()) == list(b.keys()) and all(same(a[k], b[k]) for k in a)
    return a == b


def run(tier):
    res = Result(PID)
    depth = 3 if tier == "quick" else 4
    n = 0
    shapes = set()
    samples = []
    ctr = 0
    work = [(payload, nm) for payload in payloads(depth) for nm in NAMES]
    work += [(payload, nm) for payload in list(ATOMS) + [[], {}, [0, "a"], {"k": None}] for nm in SHADOW]
    for payload, nm in work:
        if True:
            if "%d" in nm:
                ctr += 1
                name = nm % ctr          # a name this process has never seen
                fresh = name not in signals
            else:
                name, fresh = nm, False
            n += 1
            try:
                if name in signals or not fresh:
                    e = Event(signal=name, payload=payload)
                else:
                    # build the sender's event without registering the name here first: text as another process wrote it
                    e = None
                if e is not None:
                    text = Event.dumps(e)
                else:
                    import json
                    text = json.dumps({"signal_name": name, "payload": payload})
                before = dict(signals)
                e2 = Event.loads(text)
                ok_name = e2.signal_name == name
                ok_payload = same(e2.payload, payload)
                ok_number = name in signals and e2.signal == signals[name] and isinstance(e2.signal, int)
                stable = all(signals[k] == v for k, v in before.items())
                # a receiver that changes the payload it got must not change what the next decode of the same text gives
                if isinstance(e2.payload, list):
                    e2.payload.append("mutated by the receiver")
                elif isinstance(e2.payload, dict):
                    e2.payload["mutated"] = "by the receiver"
                if isinstance(e2.payload, (list, dict)):
                    e3 = Event.loads(text)
                    if not same(e3.payload, payload) or e3.payload is e2.payload:
                        res.add(Violation("C26/payload-shared-between-decodes", "decoding %r, changing the payload received and decoding the same text "
                                          "again gave %r, expected %r" % (text, e3.payload, payload), {"name": name, "payload": repr(payload), "text": text}))
                    for sub_a, sub_b in zip(_containers(e3.payload), _containers(e2.payload)):
                        if sub_a is sub_b:
                            res.add(Violation("C26/payload-shared-between-decodes", "two decodes of %r share a nested container" % (text,),
                                              {"name": name, "payload": repr(payload), "text": text}))
                            break
                if not (ok_name and ok_payload and ok_number and stable):
                    clause = "name" if not ok_name else "payload" if not ok_payload else "number" if not ok_number else "registry-changed"
                    res.add(Violation("C26/%s" % clause, "round trip of name %r payload %r gave name %r payload %r number %r" % (
                        name, payload, e2.signal_name, e2.payload, e2.signal), {"name": name, "payload": repr(payload), "text": text}))
            except Exception as ex:  # noqa
                res.add(Violation("C26/exception/%s" % type(ex).__name__, "round trip of name %r payload %r raised %r" % (name, payload, ex),
                                  {"name": name, "payload": repr(payload)}))
            shapes.add((nm, _shape(payload)))
            if len(samples) < 3 and isinstance(payload, dict) and len(payload) == 2:
                samples.append({"name": name, "payload": repr(payload), "text": text})
    res.level = "model_checking"
    res.coverage = {"evaluations": n, "distinct_nontrivial": len(shapes), "states": len(shapes), "transitions": n,
                    "traces_validated_against_impl": n,
                    "rule": "every payload of the grammar (atoms %d kinds; lists / string-keyed dicts of size <= 2; nesting depth <= %d) "
                            "x %d signal-name kinds (new name arriving as text from another process, known, inner, empty, "
                            "non-identifier, non-ascii) + %d names that shadow attributes of the registry object x atoms; "
                            "distinct = (name kind, payload shape)" % (len(ATOMS), depth, len(NAMES), len(SHADOW)),
                    "samples": samples, "exhaustive": True}
    res.assumptions = ["payload equality is type-strict (1 != True, 1 != 1.0)"]
    return res


def _containers(p):
    """nested lists/dicts of a payload, depth first"""
    if isinstance(p, list):
        for x in p:
            if isinstance(x, (list, dict)):
                yield x
                yield from _containers(x)
    elif isinstance(p, dict):
        for x in p.values():
            if isinstance(x, (list, dict)):
                yield x
                yield from _containers(x)


def _shape(p):
    if isinstance(p, list):
        return ("L",) + tuple(_shape(x) for x in p)
    if isinstance(p, dict):
        return ("D",) + tuple((k, _shape(v)) for k, v in p.items())
    return type(p).__name__ + (":" + repr(p) if not isinstance(p, (list, dict)) else "")


def replay(w):
    res = Result(PID)
    e2 = Event.loads(w["text"]) if "text" in w else None
    print(w, "->", e2)
    return res
