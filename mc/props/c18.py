"""C18 - instrumentation never changes chart behaviour: the same actions,
entries, exits, initial transitions in the same order and the same resting
state whether or not the states carry the spy decorator, whichever processor
hosts the chart, whether live spy / live trace are on or off.

Scenario families of C01 (transitions with init chains), C02 (bubbling,
handled, declined, ignored) and C03 (start), plus charts whose handlers post,
defer, recall and scribble, on every combination of host x decorator x live
flags x drive mode; active-object hosts (named and unnamed) run under the
controlled scheduler."""
import random
from mc.common import Result, Violation, seed
from mc import forests as F, instrcheck, instr, hsmrun
from mc.props import c01, c02, c03

PID = "C18"


def variants():
    vs = [{"host": "plain", "family": "plain"},            # first = the un-instrumented baseline
          {"host": "plain", "family": "spied"},
          {"host": "instrumented", "family": "plain"},
          {"host": "instrumented", "family": "spied"},
          {"host": "queued", "family": "plain"},
          {"host": "queued_off", "family": "spied"},
          {"host": "queued_off", "family": "plain", "drive": "queue"}]
    # charts in which only some of the states carry the decorator
    for fam in ("mixed_even_spied", "mixed_odd_spied"):
        vs += [{"host": "plain", "family": fam}, {"host": "instrumented", "family": fam}, {"host": "queued", "family": fam, "drive": "queue"},
               {"host": "queued_off", "family": fam}]
    vs += [{"host": "plain", "family": "plain_same_name"}, {"host": "instrumented", "family": "spied_same_name"},
           {"host": "queued", "family": "spied_same_name", "drive": "queue", "live_spy": True, "live_trace": True},
           {"host": "queued_off", "family": "spied_same_name"}]
    for ls in (False, True):
        for lt in (False, True):
            vs.append({"host": "queued", "family": "spied", "live_spy": ls, "live_trace": lt, "drive": "dispatch"})
            vs.append({"host": "queued", "family": "spied", "live_spy": ls, "live_trace": lt, "drive": "queue"})
            # the whole batch posted first, then one complete_circuit() call
            vs.append({"host": "queued", "family": "spied", "live_spy": ls, "live_trace": lt, "drive": "circuit"})
    vs += [{"host": "queued", "family": "plain", "drive": "circuit"}, {"host": "queued_off", "family": "spied", "drive": "circuit"}]
    return vs


def act_variants():
    vs = [{"host": "queued_off", "family": "plain", "drive": "queue"},
          {"host": "queued", "family": "plain", "drive": "queue"},
          {"host": "queued_off", "family": "spied", "drive": "queue"}]
    for ls in (False, True):
        for lt in (False, True):
            vs.append({"host": "queued", "family": "spied", "live_spy": ls, "live_trace": lt, "drive": "queue"})
    return vs


def run(tier):
    res = Result(PID)
    N, NA = (6, 3) if tier == "quick" else (7, 4)
    rnd = random.Random(seed())
    allf = [f for n in range(1, N + 1) for f in F.forests(n)]
    rnd.shuffle(allf)
    small = [f for f in allf if len(f) <= NA]
    vs = variants()
    instrcheck.sweep(res, [(c01.gen, allf, vs, "behaviour", None),
                           (c02.gen, allf, vs, "behaviour", None),
                           (c03.gen, allf, vs, "behaviour", None),
                           (instrcheck.gen_act, small, act_variants(), "behaviour", None)])
    from mc.props import c18ao
    c18ao.run_into(res, tier)
    c18ao.race_part(res, tier)
    res.coverage.update({
        "rule": "scenario families of C01/C02/C03 on forests<=%d and handler-script charts on forests<=%d x %d sequential "
                "configurations {plain, instrumented, queued(on/off)} x {plain, spied} x live_spy x live_trace x {dispatch, "
                "post+next_rtc}; each run's action log and resting state compared with the un-instrumented reference model "
                "(script charts: with the first configuration); active-object hosts: see ao_part" % (N, NA, len(vs)),
        "exhaustive": True})
    res.assumptions = ["behaviour = ordered log of handler invocations with ENTRY/EXIT/INIT/user signals + resting state",
                       "EMPTY/SEARCH_FOR_SUPER/REFLECTION probes are not behaviour"]
    return res


def replay(w):
    res = Result(PID)
    if w.get("ao") or w.get("ao_race"):
        from mc.props import c18ao
        return c18ao.replay(w)
    spec = hsmrun.norm(w)
    if w.get("act"):
        spec["act"] = {(int(k.split(",")[0]), k.split(",")[1]): [tuple(x) for x in v] for k, v in w["act"].items()}
    var = w["variant"]
    r = instr.run_variant(spec, var)
    base = instr.run_variant(spec, act_variants()[0]) if w.get("act") else r
    ref = None if w.get("act") else instr.ref_steps(spec)
    print(r)
    for key, what in instrcheck.CHECKERS[w.get("checker", "behaviour")](spec, var, r, ref, base, None):
        res.add(Violation("%s/%s" % (PID, key), what, w))
    return res
