"""C11 - cancelling a timed source stops exactly that source, for good.
2-3 sources over signals {A, A, B}; cancel by id (the returned object, an equal
copy rebuilt from text) and by name (Event(number), Event("name"), an event
that went through dumps/loads); the cancelling call is placed by the explorer
at every point of the race window (deviation bound incl. early timers)."""
from mc.common import Result, Violation
from mc import explore, timed, sched
from mc.props.c05 import fill
from miros.event import Event, signals

PID = "C11"


def make_id(how, ident):
    if how == "same":
        return ident
    if how == "copy":                      # e.g. the id was logged / sent over a network and came back as text
        return "".join(list(str(ident)))
    if how == "unknown":                   # an id nobody was given: must cancel nothing
        return "00000000-dead-beef-0000-000000000000"
    if how == "none":
        return None
    raise AssertionError(how)


def make_event(how, name):
    if how == "number":
        return Event(signal=signals[name])
    if how == "literal":
        return Event(signal=name)
    if how == "built":                     # the name was assembled at run time: an equal string, not the same object
        built = "".join(list(name))        # (signal names here have two letters: CPython shares one-letter strings)
        assert built == name and built is not name
        return Event(signal=built)
    if how == "loads":
        return Event.loads(Event.dumps(Event(signal=name)))
    raise AssertionError(how)


class C11(timed.TimedHarness):
    name = "c11"

    def actions(self, s, p, ao, ids):
        c = p["cancel"]
        if c.get("at"):
            sched.VTime.sleep(c["at"])        # cancel later (virtual time), racing the timers
        if c["by"] == "id":
            ao.cancel_event(make_id(c["how"], ids[c["target"]]))
        else:
            ao.cancel_events(make_event(c["how"], c["name"]))
        s.note("cancel-returned")
        return {"cancel_step": s.steps, "cancel_time": s.now}

    def check(self, p, ex):
        if ex.verdict == "time-horizon":
            return []       # the harness's own scripted sleep slipped past the time horizon under clock deviations: nothing observed
        if ex.verdict != "done":
            return [("C11/%s" % ex.verdict, "execution ended with %s: %r" % (ex.verdict, ex.obs))]
        o = ex.obs
        c = p["cancel"]
        out = []
        if o["thread_exceptions"]:
            out.append(("C11/exception", "%r" % (o["thread_exceptions"],)))
        if c["by"] == "id":
            cancelled = [] if c["how"] in ("unknown", "none") else [c["target"]]
        else:
            cancelled = [i for i, src in enumerate(p["sources"]) if src["sig"] == c["name"]]
        tag = "by=%s/how=%s" % (c["by"], c["how"])
        for i in cancelled:
            lab = "%s/s%d" % (p["sources"][i]["sig"], i)
            late = [(st, now) for (st, now, op, l) in o["appends"] if l == lab and st > o["cancel_step"]]
            if late:
                out.append(("C11/post-after-cancel/%s" % tag, "source %d posted at (step, time) %r after the cancelling call had returned at step %d, time %s" % (
                    i, late, o["cancel_step"], o["cancel_time"])))
        # the others keep running on schedule
        rejected = list(o.get("raised") or ())       # a source miros refused (tracked list full) owes no schedule
        out += timed.schedule_violations(PID, p, o, cancelled=cancelled, rejected=rejected)
        left = sorted(o["tracked"])
        # sources that finished on their own stay listed (miros never prunes them): only the cancelled ones must be gone
        want_gone = set(o["ids"][i] for i in cancelled)
        still = [u for (_, u) in o["tracked"] if u in want_gone]
        others = set(o["ids"][i] for i in range(len(p["sources"])) if i not in cancelled and i not in rejected)
        missing = [u for u in others if u not in [x[1] for x in o["tracked"]]]
        if still or missing:
            out.append(("C11/tracked-list/%s" % tag, "cancelled ids still tracked: %r; uncancelled ids no longer tracked: %r" % (still, missing)))
        return out


SRC3 = [{"sig": "AA", "period": 0.5, "times": 0, "deferred": True, "kind": "fifo"},
        {"sig": "AA", "period": 1.0, "times": 2, "deferred": False, "kind": "lifo"},
        {"sig": "BB", "period": 0.5, "times": 3, "deferred": True, "kind": "fifo"}]


def params(tier):
    ps = []
    q = tier == "quick"
    # which source a cancel hits does not depend on the schedule: the ways of obtaining an equal id / name are
    # explored at bound 0 in the quick tier (bound 1 thorough), the plain forms at bound 1
    for how in ("same", "copy"):
        for target in (0, 1, 2):
            ps.append({"sources": SRC3, "cancel": {"by": "id", "how": how, "target": target},
                       "bound": 1 if (how == "same" or not q) else 0, "time_horizon": 0.5 if q else 1.0})
    for how in ("number", "literal", "built", "loads"):
        for name in ("AA", "BB"):
            ps.append({"sources": SRC3, "cancel": {"by": "name", "how": how, "name": name},
                       "bound": 1 if (how == "number" or not q) else 0, "time_horizon": 0.5 if q else 1.0})
    # a finite source with the same signal has already finished when the long-lived one is cancelled
    fin = [{"sig": "AA", "period": 0.5, "times": 0, "deferred": True, "kind": "fifo"},
           {"sig": "AA", "period": 0.25, "times": 1, "deferred": True, "kind": "fifo"},
           {"sig": "BB", "period": 0.5, "times": 0, "deferred": True, "kind": "lifo"}]
    ps.append({"sources": fin, "cancel": {"by": "id", "how": "same", "target": 0, "at": 0.6}, "bound": 0 if q else 1, "time_horizon": 1.5})
    ps.append({"sources": fin, "cancel": {"by": "name", "how": "number", "name": "AA", "at": 0.6}, "bound": 0 if q else 1, "time_horizon": 1.5})
    ps.append({"sources": list(reversed(fin)), "cancel": {"by": "id", "how": "copy", "target": 2, "at": 0.6}, "bound": 0, "time_horizon": 1.5})
    # the tracked list (capacity 3) is full, two of its entries are one-shots that have fired: one more timed post is then
    # refused (miros keeps finished sources listed) - and whatever happens to it, the live source must stay cancellable
    full = [{"sig": "AA", "period": 0.5, "times": 0, "deferred": True, "kind": "fifo"},
            {"sig": "BB", "period": 0.25, "times": 1, "deferred": True, "kind": "fifo"},
            {"sig": "CC", "period": 0.25, "times": 1, "deferred": True, "kind": "lifo"},
            {"sig": "DD", "period": 0.5, "times": 0, "deferred": True, "kind": "fifo", "at": 0.6}]
    ps.append({"sources": full, "sub_qsize": 3, "cancel": {"by": "id", "how": "copy", "target": 0, "at": 0.2}, "bound": 0, "time_horizon": 2.0})
    ps.append({"sources": full, "sub_qsize": 3, "cancel": {"by": "name", "how": "literal", "name": "AA", "at": 0.2}, "bound": 0 if q else 1, "time_horizon": 2.0})
    # cancelling something that is not there cancels nothing
    for how in ("unknown", "none"):
        ps.append({"sources": SRC3, "cancel": {"by": "id", "how": how, "target": 0}, "bound": 0 if q else 1, "time_horizon": 0.5 if q else 1.0})
    ps.append({"sources": SRC3, "cancel": {"by": "name", "how": "literal", "name": "CC"}, "bound": 0 if q else 1, "time_horizon": 0.5 if q else 1.0})
    # the race between the cancelling call and a timer that is about to post
    two = [{"sig": "AA", "period": 0.5, "times": 0, "deferred": True, "kind": "fifo"},
           {"sig": "BB", "period": 0.5, "times": 2, "deferred": False, "kind": "fifo"}]
    ps.append({"sources": two[:1], "cancel": {"by": "id", "how": "same", "target": 0, "at": 0.5}, "bound": 2, "time_horizon": 1.5})
    ps.append({"sources": two[:1], "cancel": {"by": "name", "how": "number", "name": "AA", "at": 0.5}, "bound": 2, "time_horizon": 1.5})
    ps.append({"sources": two, "cancel": {"by": "id", "how": "same", "target": 1}, "bound": 2, "time_horizon": 1.0})
    # two threads start a timed source at the same moment when one place is left in the tracked list (capacity 2): whichever
    # of them is accepted, the source tracked before must stay cancellable
    for by in ("id", "name"):
        ps.append({"sources": two, "sub_qsize": 2, "racer": {"before": 1, "op": "post_timed"}, "racer_codes": True,
                   "cancel": dict({"by": "id", "how": "same", "target": 0} if by == "id" else {"by": "name", "how": "literal", "name": "AA"}, at=0.25),
                   "bound": 1 if q else 2, "time_horizon": 1.0})
    if not q:       # heavy: explored under a wall-clock budget, reported separately (coverage.heavy_extra)
        ps.append({"sources": two, "cancel": {"by": "name", "how": "literal", "name": "AA", "at": 1.0}, "bound": 2, "time_horizon": 2.0, "heavy": True})
        ps.append({"sources": SRC3, "cancel": {"by": "id", "how": "same", "target": 0, "at": 0.5}, "bound": 2, "time_horizon": 1.0, "heavy": True})
    return ps


RACER_CODES = timed.CODES + ["ActiveObject.__", "ActiveObject.cancel"]


def run(tier):
    res = Result(PID)
    allp = params(tier)
    st = explore.explore(C11("line"), [p for p in allp if not p.get("heavy") and not p.get("racer_codes")], 2)
    st.merge(explore.explore(C11("line", codes=RACER_CODES), [p for p in allp if p.get("racer_codes")], 2))
    hx = None
    if any(p.get("heavy") for p in allp):
        hx = explore.extra(st, C11("line"), [p for p in allp if p.get("heavy")], 2, 1500,
                           "two/three sources with a cancel at 0.5-1.0 s, bound 2, time horizon 1-2 s")
    ix = None
    if tier != "quick":
        racy = [dict(p, bound=2.015) for p in params(tier) if p.get("bound") == 2][:3]
        ix = explore.extra(st, explore.hybrid(C11("instr")), racy, 2.015, 900,
                           "the cancel-vs-due-timer races at instruction granularity, two deviations of which at most one inside a source line")
    fill(res, st, 2, "line", "; 3 sources over signals A, A, B x {cancel by id: same object / equal copy; cancel by name: "
         "Event(number) / Event('name') / run-time built name / dumps+loads} and cancel racing a timer that is due")
    if ix:
        res.coverage["instruction_extra"] = ix
    if hx:
        res.coverage["heavy_extra"] = hx
    res.assumptions = ["'after the cancelling call returns' = scheduler step index of the return vs step index of each queue append",
                       "sources that ended on their own may stay in the tracked list (not constrained)"]
    return res


def replay(w):
    res = Result(PID)
    ex, v = explore.replay(C11("line", codes=RACER_CODES if (w.get("params") or {}).get("racer_codes") else None), w)
    print(ex.verdict, ex.obs)
    for key, what in v:
        res.add(Violation(key, what, w))
    return res
