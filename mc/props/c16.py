"""C16 - pending-event queues stay bounded, never block and keep lifo posts.

Breadth-first search over all operation sequences (to a depth) on
 (a) a real LockingDeque (append, appendleft, take-front = wait+popleft+task_done,
     take-back, pop/popleft on empty, clear, len) and
 (b) a real HsmWithQueues chart (post_fifo, post_lifo, next_rtc)
with the capacity reduced to 3 (and one run at 500), deduplicated on the
canonical queue state.  The LockingDeque runs over the controlled Queue
stand-in on a single virtual thread, so a call that would block is seen as a
deadlock instead of hanging the checker."""
from collections import deque
from mc.common import Result, Violation, pmap, ncpu, ToolingError
from mc import sched, aoenv, explore, aoharness as H
import miros.activeobject as ao_mod
import miros.hsm as hsm
from miros.event import Event

PID = "C16"
OPS_LD = ["append", "appendleft", "take_front", "take_back", "clear", "len", "pop_raw", "popleft_raw"]
OPS_HQ = ["post_fifo", "post_lifo", "next_rtc"]


class SeqHarness:
    """runs one operation sequence in the main virtual thread"""
    name = "c16-seq"
    horizon = 100000

    def setup_process(self):
        aoenv.install()

    def body(self, s, p):
        aoenv.reset()
        cap = p["cap"]
        trace = []
        with H.QueueSize(cap):
            if p["kind"] == "ld":
                q = ao_mod.LockingDeque()
            else:
                chart = hsm.HsmWithQueues()
                chart.start_at(H.make_state())
        ctr = 0
        model = []      # reference contents, front first
        for op in p["ops"]:
            rec = {"op": op}
            try:
                if p["kind"] == "ld":
                    if op in ("append", "appendleft"):
                        ctr += 1
                        getattr(q, op)(ctr)
                        rec["item"] = ctr
                    elif op in ("take_front", "take_back"):
                        # what the consumer thread does: wait for a token, look, take
                        if len(q) >= 1:
                            q.wait()
                            rec["got"] = q.popleft() if op == "take_front" else q.pop()
                            q.task_done()
                        else:
                            rec["skipped"] = True
                    elif op == "pop_raw":
                        rec["got"] = q.pop()
                    elif op == "popleft_raw":
                        rec["got"] = q.popleft()
                    elif op == "clear":
                        q.clear()
                    elif op == "len":
                        rec["got"] = (len(q), q.len())
                    rec["contents"] = list(q.deque)
                    rec["tokens"] = q.locking_queue._qsize()
                    rec["unfinished"] = q.locking_queue.unfinished_tasks
                else:
                    if op in ("post_fifo", "post_lifo"):
                        ctr += 1
                        getattr(chart, op)(Event(signal="A", payload=str(ctr)))
                        rec["item"] = str(ctr)
                    else:
                        n0 = len(s.log)
                        rec["got"] = chart.next_rtc()
                        rec["dispatched"] = [x[5] for x in s.log[n0:] if x[3] == "rtc-begin"]
                    rec["contents"] = [e.payload for e in chart.queue]
            except sched.ExecutionAbort:
                rec["blocked"] = True
                trace.append(rec)
                raise
            except Exception as e:  # noqa
                rec["raised"] = type(e).__name__
                rec["contents"] = list(q.deque) if p["kind"] == "ld" else [e.payload for e in chart.queue]
                if p["kind"] == "ld":
                    rec["tokens"] = q.locking_queue._qsize()
            trace.append(rec)
        self.last = trace
        return {"trace": trace}

    def on_abort(self, s, p):
        return {"blocked": True}

    def check(self, p, ex):
        return []


def judge(p, obs):
    """compare the trace of one sequence with the reference model; -> (violations, canonical end state)"""
    cap = p["cap"]
    out = []
    if obs.get("aborted"):
        return [("C16/%s/blocked" % p["kind"], "an operation blocked (single thread deadlock) in %r" % (p["ops"],))], None
    model = []
    raw = False    # a raw pop()/popleft() (no wait()) happened since the last clear: tokens may exceed items
    for i, rec in enumerate(obs["trace"]):
        op = rec["op"]
        pre = list(model)
        where = "%s/%s" % (p["kind"], op)
        if rec.get("raised") and op not in ("pop_raw", "popleft_raw"):
            out.append(("C16/%s/raised-%s" % (where, rec["raised"]), "%s raised %s at step %d of %r (contents before %r)" % (
                op, rec["raised"], i, p["ops"], pre)))
            return out, None
        got = rec.get("contents")
        if op in ("append", "post_fifo", "appendleft", "post_lifo"):
            back = op in ("append", "post_fifo")
            x = rec["item"]
            if len(pre) < cap:
                model = pre + [x] if back else [x] + pre
                if got != model:
                    out.append(("C16/%s/below-capacity" % where, "%s below capacity: %r -> %r, expected %r" % (op, pre, got, model)))
                    return out, None
            else:
                ok = len(got) <= cap and len(got) >= 1 and (got[-1] == x if back else got[0] == x)
                rest = got[:-1] if back else got[1:]
                # survivors: old contents minus exactly one, in the same relative order
                ok = ok and len(rest) == len(pre) - 1 and _subseq(rest, pre)
                if not ok:
                    out.append(("C16/%s/at-capacity" % where,
                                "%s on a full queue %r left %r (new item must be at the %s, the others keep their order, one old item displaced)"
                                % (op, pre, got, "back" if back else "front")))
                    return out, None
                model = list(got)
        elif op in ("take_front", "take_back", "pop_raw", "popleft_raw"):
            front = op in ("take_front", "popleft_raw")
            if not pre:
                if op.endswith("_raw"):
                    if rec.get("raised") != "IndexError":
                        out.append(("C16/%s/empty" % where, "%s on empty queue: %r" % (op, rec)))
                        return out, None
                continue
            want = pre[0] if front else pre[-1]
            model = pre[1:] if front else pre[:-1]
            if op.endswith("_raw"):
                raw = True
            if rec.get("got") != want or got != model:
                out.append(("C16/%s/wrong-item" % where, "%s from %r gave %r leaving %r" % (op, pre, rec.get("got"), got)))
                return out, None
        elif op == "clear":
            model = []
            raw = False
            if got != []:
                out.append(("C16/%s/not-empty" % where, "clear left %r" % (got,)))
                return out, None
        elif op == "len":
            if rec["got"] != (len(pre), len(pre)):
                out.append(("C16/%s/len" % where, "len gave %r for %r" % (rec["got"], pre)))
                return out, None
        elif op == "next_rtc":
            if pre:
                model = pre[1:]
                if rec["got"] is not True or rec["dispatched"] != ["A/%s" % pre[0]] or got != model:
                    out.append(("C16/%s/wrong-dispatch" % where, "next_rtc on %r dispatched %r leaving %r" % (pre, rec["dispatched"], got)))
                    return out, None
            elif rec["got"] is not False or rec["dispatched"]:
                out.append(("C16/%s/empty" % where, "next_rtc on empty queue: %r" % (rec,)))
                return out, None
        if len(got if got is not None else model) > cap:
            out.append(("C16/%s/over-capacity" % where, "%d items with capacity %d" % (len(got), cap)))
            return out, None
        if p["kind"] == "ld" and "tokens" in rec:
            # idle: one wake-up token per pending event (raw pops, which bypass wait(), leave their tokens behind)
            if rec["tokens"] < len(model) or (not raw and rec["tokens"] != len(model)) or rec["tokens"] > p["cap"]:
                out.append(("C16/%s/tokens" % where, "after %s: %d items but %d wake-up tokens (ops %r)" % (
                    op, len(model), rec["tokens"], p["ops"][:i + 1])))
                return out, None
    last = obs["trace"][-1] if obs["trace"] else {}
    if p["kind"] == "ld":
        # hidden state that later operations can observe is part of the canonical state
        return out, (_canon(model), last.get("tokens"), min(last.get("unfinished", 0), 2), raw)
    return out, (_canon(model), None)


def _subseq(a, b):
    it = iter(b)
    return all(any(x == y for y in it) for x in a)


def _canon(items):
    order = {v: i for i, v in enumerate(sorted(items, key=lambda z: int(z)))}
    return tuple(order[v] for v in items)


def bfs(kind, cap, depth):
    """BFS over op sequences, deduplicated on canonical end state.  returns stats"""
    h = SeqHarness()
    h.setup_process()
    ops = OPS_LD if kind == "ld" else OPS_HQ
    seen = {((), 0, 0, False) if kind == "ld" else ((), None)}
    frontier = [[]]
    n_trans = 0
    viol = []
    samples = []
    for d in range(depth):
        nxt = []
        for path in frontier:
            for op in ops:
                seq = path + [op]
                p = {"kind": kind, "cap": cap, "ops": seq}
                ex = explore.run_execution(h, p, ())
                n_trans += 1
                vs, state = judge(p, ex.obs)
                for key, what in vs:
                    if sum(1 for v in viol if v[0] == key) < 2:
                        viol.append((key, what, p))
                if vs or state is None:
                    continue
                if len(samples) < 2 and len(seq) >= 4 and "append" in seq and "appendleft" in seq:
                    samples.append({"ops": seq, "trace": ex.obs["trace"]})
                if state not in seen:
                    seen.add(state)
                    nxt.append(seq)
        frontier = nxt
    return len(seen), n_trans, viol, samples


def work(task):
    return bfs(*task)


def run(tier):
    res = Result(PID)
    d = 8 if tier == "quick" else 11
    tasks = [("ld", 3, d), ("hq", 3, d + 1), ("ld", 2, d), ("hq", 2, d), ("ld", 500, 4), ("hq", 500, 4)]
    if tier != "quick":
        tasks += [("ld", 4, d), ("hq", 4, d), ("ld", 5, d), ("hq", 5, d), ("ld", 1, d), ("hq", 1, d), ("ld", 500, 6), ("hq", 500, 6)]
    out = pmap(work, tasks)
    for o in out:
        for key, what, w in o[2]:
            res.add(Violation(key, what, w))
    res.coverage = {"states": sum(o[0] for o in out), "transitions": sum(o[1] for o in out),
                    "traces_validated_against_impl": sum(o[1] for o in out),
                    "evaluations": sum(o[1] for o in out), "distinct_nontrivial": sum(o[0] for o in out),
                    "rule": "BFS over operation sequences (LockingDeque: %s; queued chart: %s) to depth %d with capacity 2, 3 (thorough: 1-5) "
                            "(and 500 to depth 4, thorough 6), deduplicated on (relative order of contents, token count); every transition "
                            "executed on the real object rebuilt by replaying its path" % (OPS_LD, OPS_HQ, d),
                    "samples": [s for o in out for s in o[3]][:3], "exhaustive": True}
    res.assumptions = ["which old event a post to a full queue displaces is not constrained (only: new event at its end, "
                       "survivors keep order)", "raw pop()/popleft() bypass wait(): their tokens may stay behind"]
    return res


def replay(witness):
    res = Result(PID)
    h = SeqHarness()
    h.setup_process()
    ex = explore.run_execution(h, witness, ())
    print(ex.obs)
    vs, _ = judge(witness, ex.obs)
    for key, what in vs:
        res.add(Violation(key, what, witness))
    return res
