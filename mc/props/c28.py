"""C28 - every statement using a thread-safe attribute releases its lock.

A grammar of Python statement forms that read / write the attribute is
instantiated into a generated source file (the descriptor classifies the
caller's *source line*); each statement runs once on a fresh class, then a
second thread tries a non-blocking acquire of the descriptor's lock."""
import os, sys, tempfile, shutil, threading, importlib.util, itertools
from mc.common import Result, Violation, load_miros, ToolingError
load_miros()
from miros.thread_safe_attributes import MetaThreadSafeAttributes

PID = "C28"
AUG = ["+=", "-=", "*=", "/=", "//=", "%=", "**=", ">>=", "<<=", "&=", "^=", "|="]
CMP = {"lt": "<", "le": "<=", "gt": ">", "ge": ">=", "eq": "==", "ne": "!="}
BIN = {"add": "+", "sub": "-", "mul": "*", "truediv": "/", "floordiv": "//", "mod": "%", "pow": "**", "rshift": ">>",
       "lshift": "<<", "and": "&", "xor": "^", "or": "|"}
AUGN = {"+=": "iadd", "-=": "isub", "*=": "imul", "/=": "itruediv", "//=": "ifloordiv", "%=": "imod", "**=": "ipow",
        ">>=": "irshift", "<<=": "ilshift", "&=": "iand", "^=": "ixor", "|=": "ior"}


def templates(depth):
    """(id, [source lines of the body])  -- body runs with o (instance), x (int), l (list), f (function), d (dict)"""
    T = []
    A = T.append
    A(("read_plain", ["x = o.a"]))
    A(("read_expr_stmt", ["o.a"]))
    A(("read_call_arg", ["x = f(o.a)"]))
    A(("read_call_kwarg", ["x = f(k=o.a)"]))
    A(("read_print_like", ["f(o.a, o.a)"]))
    A(("read_subscript", ["x = l[o.a]"]))
    A(("read_fstring", ["x = f'{o.a}'"]))
    A(("read_format", ["x = '{}'.format(o.a)"]))
    A(("read_cond_expr", ["x = 1 if o.a else 2"]))
    A(("read_if", ["if o.a:", "  pass"]))
    A(("read_if_oneline", ["if o.a: x = 1"]))
    A(("read_while", ["while o.a > 5:", "  break"]))
    A(("read_assert", ["assert o.a is not None"]))
    A(("read_tuple_unpack", ["x, y = o.a, 1"]))
    A(("read_walrus", ["(y := o.a)"]))
    A(("read_return", ["return o.a"]))
    A(("read_neg", ["x = -o.a"]))
    A(("read_not", ["x = not o.a"]))
    A(("read_in", ["x = o.a in l"]))
    A(("read_is", ["x = o.a is None"]))
    A(("read_comment_aug_text", ["x = o.a  # x += 1 later"]))
    A(("read_string_aug_text", ["x = (o.a, '+=')"]))
    A(("read_lambda", ["x = (lambda: o.a)()"]))
    A(("read_listcomp", ["x = [o.a for _ in range(2)]"]))
    A(("read_multiline_paren", ["x = (", "  o.a", "  + 1)"]))
    A(("read_lock_form", ["_, _lock = o.a"]))
    A(("read_lock_form_with", ["_, _lock = o.a", "with _lock:", "  x = 1"]))
    for n, op in BIN.items():
        A(("read_bin_%s" % n, ["x = o.a %s 2" % op]))
        A(("read_rbin_%s" % n, ["x = 2 %s (o.a + 1)" % op]))
    for n, op in CMP.items():
        A(("read_cmp_%s" % n, ["x = o.a %s 3" % op]))
        A(("read_if_cmp_%s" % n, ["if o.a %s 3:" % op, "  pass"]))
        A(("read_assert_cmp_%s" % n, ["assert (o.a %s 3) in (True, False)" % op]))
    A(("write_plain", ["o.a = 5"]))
    A(("write_from_self", ["o.a = o.a + 1"]))
    A(("write_from_other", ["o.a = o.b"]))
    A(("write_chain", ["o.a = o.b = 3"]))
    A(("write_tuple", ["o.a, o.b = 1, 2"]))
    A(("write_swap", ["o.a, o.b = o.b, o.a"]))
    A(("write_setattr", ["setattr(o, 'a', 4)"]))
    A(("write_multiline", ["o.a = (o.a", "       + 1)"]))
    for op in AUG:
        A(("aug_self_%s" % AUGN[op], ["o.a %s 2" % op]))
        A(("aug_other_var_%s" % AUGN[op], ["x %s (o.a + 1)" % op]))
    # the result is the very object already stored (a setter that skips 'unchanged' values must still release)
    for n, body in (("add0", "o.a += 0"), ("sub0", "o.a -= 0"), ("mul1", "o.a *= 1"), ("floordiv1", "o.a //= 1"), ("pow1", "o.a **= 1"),
                    ("or0", "o.a |= 0"), ("xor0", "o.a ^= 0"), ("lshift0", "o.a <<= 0"), ("rshift0", "o.a >>= 0"), ("and_self", "o.a &= -1")):
        A(("aug_self_neutral_%s" % n, [body]))
    A(("write_same_value", ["o.a = 0"]))
    A(("aug_self_multiline", ["o.a += (", "  1)"]))
    A(("aug_self_from_self", ["o.a += o.a"]))
    A(("aug_self_from_other_attr", ["o.a += o.b"]))
    A(("aug_other_attr_from_self", ["o.b += o.a"]))
    A(("aug_subscript_from_self", ["l[0] += o.a"]))
    A(("aug_dict_from_self", ["d['k'] += o.a"]))
    # a second instance p of the same class (the descriptor, hence the lock and the classification, is shared)
    A(("read_two_instances", ["x = o.a + p.a"]))
    A(("write_from_other_instance", ["o.a = p.a"]))
    A(("write_both_instances", ["o.a = 1; p.a = 2"]))
    A(("aug_other_instance_other_attr", ["p.b += o.a"]))
    A(("aug_self_other_attr_of_other_instance", ["o.a += p.b"]))
    A(("aug_self_from_other_instance", ["o.a += p.a"]))
    A(("two_stmts_read_then_aug_other", ["x = o.a; x += 1"]))
    A(("two_stmts_write_then_read", ["o.a = 1; x = o.a"]))
    A(("two_stmts_aug_then_read", ["o.a += 1; x = o.a"]))
    if depth >= 2:      # nesting depth 2: every read form inside a call inside another form
        for n, op in list(CMP.items()) + list(BIN.items()):
            A(("nested_call_%s" % n, ["x = f(f(o.a) %s 2)" % op]))
            A(("nested_cond_%s" % n, ["x = (o.a %s 2) if (o.b %s 2) else 0" % (op, op)]))
        for op in AUG:
            A(("nested_aug_other_in_if_%s" % AUGN[op], ["if True:", "  x %s f(o.a) + 1" % op]))
            A(("nested_aug_self_in_loop_%s" % AUGN[op], ["for _ in range(2):", "  o.a %s 1" % op]))
    return T


def generate(dirname, T):
    src = ["# generated by mc.props.c28", "def f(*a, **k):", "  return 1", ""]
    for tid, body in T:
        src.append("def t_%s(o, x, l, d, p):" % tid)
        src.append("  y = 0")
        for line in body:
            src.append("  " + line)
        src.append("  return None")
        src.append("")
    path = os.path.join(dirname, "c28_statements.py")
    with open(path, "w") as fh:
        fh.write("\n".join(src))
    spec = importlib.util.spec_from_file_location("c28_statements", path)
    mod = importlib.util.module_from_spec(spec)
    spec.loader.exec_module(mod)
    return mod


def lock_free(lock):
    """can another thread take the lock right now?"""
    out = []

    def probe():
        ok = lock.acquire(False)
        if ok:
            lock.release()
        out.append(ok)
    th = threading.Thread(target=probe)
    th.start()
    th.join()
    return out[0]


def run_one(mod, tid):
    K = MetaThreadSafeAttributes("K_" + tid, (), {"_attributes": ["a", "b"]})
    o = K()
    o.a = 12
    o.b = 3
    p = K()
    p.a = 4
    p.b = 5
    desc = {n: K.__dict__[n] for n in ("a", "b")}
    for n, dsc in desc.items():
        if not hasattr(dsc, "_lock"):
            raise ToolingError("descriptor has no _lock attribute (miros refactored?)")
        if not lock_free(dsc._lock):
            raise ToolingError("lock held before the statement")
    err = None
    try:
        getattr(mod, "t_" + tid)(o, 7, [5, 6, 7, 8] * 8, {"k": 1}, p)
    except Exception as e:  # noqa
        err = "%s: %s" % (type(e).__name__, e)
    held = [n for n, dsc in desc.items() if not lock_free(dsc._lock)]
    return err, held


def run(tier):
    res = Result(PID)
    depth = 1 if tier == "quick" else 2
    T = templates(depth)
    d = tempfile.mkdtemp(prefix="mc-c28-")
    try:
        mod = generate(d, T)
        samples = []
        for tid, body in T:
            err, held = run_one(mod, tid)
            if err:
                res.add(Violation("C28/exception/template=%s" % tid, "statement %r raised %s" % (body, err), {"template": tid, "body": body}))
            if held:
                res.add(Violation("C28/lock-held/template=%s" % tid, "after %r the calling thread still holds the lock of attribute %s "
                                  "(another thread's non-blocking acquire fails)" % (" / ".join(body), held), {"template": tid, "body": body}))
            if len(samples) < 3 and tid.startswith("aug_other"):
                samples.append({"template": tid, "body": body, "lock_held_after": held})
    finally:
        shutil.rmtree(d, True)
    n = len(T)
    res.coverage = {"evaluations": n, "distinct_nontrivial": n, "states": n, "transitions": n, "traces_validated_against_impl": n,
                    "rule": "every statement template of the grammar (reads in %d binary ops, 6 comparisons, calls, subscripts, f-strings, "
                            "conditionals, if/while/assert heads; plain / tuple / chained writes; 12 augmented assignments to the attribute "
                            "and to other targets; the '_, _lock =' form; two statements per line; multi-line forms; nesting depth %d), "
                            "each executed once from a generated source file on a fresh class" % (len(BIN), depth),
                    "samples": samples, "exhaustive": True}
    res.assumptions = ["the grammar is the alphabet: statement forms outside it are not covered",
                       "@= is excluded (needs operands with __matmul__)"]
    return res


def replay(w):
    res = Result(PID)
    d = tempfile.mkdtemp(prefix="mc-c28-")
    try:
        mod = generate(d, [(w["template"], w["body"])])
        err, held = run_one(mod, w["template"])
        print("error:", err, "lock held:", held)
        if held:
            res.add(Violation("C28/lock-held/template=%s" % w["template"], "lock held", w))
    finally:
        shutil.rmtree(d, True)
    return res
