"""C21 - live spy / live trace hand every spy line and every new trace record to
the registered callback exactly once, in production order, whatever the clock
says.  The clock (`miros.hsm.stdlib_datetime`) is scripted: strictly
increasing; advancing on every 2nd / 8th / 64th call; constant within a step;
constant across 2 or 3 steps; frozen.  Hosts: a queued chart (callbacks
called synchronously) and an active object (writer thread under the controlled
scheduler)."""
import random
from mc.common import Result, Violation, seed
from mc import forests as F, instrcheck, instr, hsmrun
from mc.props import c01, c02, c03

PID = "C21"


def variants(clocks):
    vs = []
    for ck in clocks:
        for ls, lt in ((True, True), (False, True), (True, False), (False, False)):
            if (ls, lt) != (True, True) and ck not in ("inc", "frozen"):
                continue
            vs.append({"host": "queued", "family": "spied", "drive": "queue", "live_spy": ls, "live_trace": lt, "clock": ck})
    for ck in ("inc", "frozen", "step2"):
        for ca in (0, 1):
            vs.append({"host": "queued", "family": "spied", "drive": "queue", "live_spy": True, "live_trace": True, "clock": ck, "clear_after": ca})
    vs.append({"host": "queued", "family": "plain", "drive": "queue", "live_spy": True, "live_trace": True, "clock": "inc"})
    vs.append({"host": "queued_off", "family": "spied", "drive": "queue", "live_spy": True, "live_trace": True, "clock": "inc"})
    return vs


def gen3(parent):
    """three consecutive transitions (two timestamps may coincide across steps)"""
    for base, nt in c01.gen(parent):
        yield dict(base, events=["A", "A", "A"]), nt


def run(tier):
    res = Result(PID)
    N, NA = (5, 3) if tier == "quick" else (7, 4)
    rnd = random.Random(seed())
    allf = [f for n in range(1, N + 1) for f in F.forests(n)]
    rnd.shuffle(allf)
    small = [f for f in allf if len(f) <= NA]
    vs = variants(instr.CLOCKS)
    instrcheck.sweep(res, [(gen3, allf, vs, "live", None),
                           (c02.gen, allf, vs, "live", None),
                           (c03.gen, allf, vs, "live", None),
                           (instrcheck.gen_act, small, vs, "live", None)])
    from mc.props import c21ao
    c21ao.run_into(res, tier)
    res.coverage.update({
        "rule": "3-step transition chains (C01 family), C02/C03 families on forests<=%d and handler-script charts on forests<=%d, "
                "queued host driven by post+next_rtc, live flags on/off x %d clock scripts %r; the spy callback must receive "
                "exactly the step's spy lines, the trace callback exactly the rendering of the step's new records, once, in "
                "order; active-object part: see ao_part" % (N, NA, len(instr.CLOCKS), instr.CLOCKS),
        "clock_scripts": instr.CLOCKS, "exhaustive": True})
    res.assumptions = ["the clock is miros.hsm.stdlib_datetime (module-level name) replaced by a scripted class"]
    return res


def replay(w):
    if w.get("ao"):
        from mc.props import c21ao
        return c21ao.replay(w)
    from mc.props import c18
    r = c18.replay(w)
    r.pid = PID
    for v in r.violations:
        v.key = v.key.replace("C18/", "C21/", 1)
    return r
