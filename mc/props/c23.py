"""C23 - state_name / state_fn / current_state() always describe the current
state: after start_at and after every step of the C01 (transitions with init
chains), C02 (handled / declined / ignored events) and C03 (start) scenario
families, on every host."""
import random
from mc.common import Result, seed
from mc import forests as F, hsmrun
from mc.hsmcheck import sweep, VARIANTS_ALL, mixed_style, replay_generic
from mc.props import c01, c02, c03

SAME_NAME = [("plain", "plain_same_name"), ("instrumented", "plain_same_name"), ("instrumented", "spied_same_name"),
             ("queued", "plain_same_name"), ("queued_off", "spied_same_name")]
PID = "C23"


def run(tier):
    res = Result(PID)
    N = 7 if tier == "quick" else 8
    rnd = random.Random(seed())
    allf = [f for n in range(1, N + 1) for f in F.forests(n)]
    rnd.shuffle(allf)
    sweep(res, [(c01.gen, allf, VARIANTS_ALL, [None]),
                (c02.gen, allf, VARIANTS_ALL, [None]),
                (c03.gen, allf, VARIANTS_ALL, [None, mixed_style]),
                # distinct state functions that all carry the same __name__: state_fn must follow the function, not the name
                (c01.gen, [f for f in allf if len(f) <= 5], SAME_NAME, [None]),
                (c03.gen, [f for f in allf if len(f) <= 5], SAME_NAME, [None])], fields=hsmrun.NAME_FIELDS)
    ao_part(res, tier)
    res.coverage.update({
        "rule": "scenario families of C01, C02, C03 on forests<=%d x 4 hosts; after start_at and after each of the "
                "two steps compare state_name, state_fn (handler or the function it decorates) and, on instrumented "
                "queued hosts, current_state() with the reference configuration; plus the C01/C03 families on a real active object "
                "with subscribe/publish/post before start_at (the meta-event steps included)" % N,
        "exhaustive": True})
    res.assumptions = ["reference configuration from the UML reference model"]
    return res


def _ao_work(ps):
    from mc.props import c20ao
    from mc import explore
    h = c20ao.AoTrace()
    h.setup_process()
    out = []
    for p in ps:
        v = []
        try:
            ex = explore.run_execution(h, p, ())
            if ex.verdict != "done":
                v.append(("C23/ao/%s" % ex.verdict, "ended with %s" % ex.verdict))
            else:
                pre = ("+".join(op[0] for op in p["pre"]) or "none") + ("/unnamed" if p.get("unnamed") else "")
                for k, n in enumerate(ex.obs["names"]):
                    if n["state_name"] != n["config"] or not n["state_fn_ok"] or n["current_state"] != n["config"]:
                        v.append(("C23/ao/names/pre=%s" % pre, "active object (operations before start_at: %r), after step %d: state_name %r, "
                                  "state_fn ok %s, current_state() %r, the processor rests in %r" % (
                                      p["pre"], k, n["state_name"], n["state_fn_ok"], n["current_state"], n["config"])))
                        break
        except Exception as e:  # noqa
            v.append(("C23/ao/exception", "%s: %s" % (type(e).__name__, e)))
        out.append((p, v))
    return out


def ao_part(res, tier):
    """state_name / state_fn / current_state() on a real active object, including the steps made for the meta events it
    posts to itself (subscribe / publish before start_at)"""
    from mc.common import pmap, ncpu, Violation
    from mc.props import c20ao
    N = 3 if tier == "quick" else 4
    ps = []
    for n in range(1, N + 1):
        for f in F.forests(n):
            for gen in (c01.gen, c03.gen):
                for base, _ in gen(f):
                    for pre in c20ao.PRE:
                        ps.append({"spec": hsmrun.dump(hsmrun.norm(base)), "pre": [list(x) for x in pre]})
                    ps.append({"spec": hsmrun.dump(hsmrun.norm(base)), "pre": [], "unnamed": True})
    chunks = [ps[i::ncpu() * 4] for i in range(ncpu() * 4)]
    n = 0
    for part in pmap(_ao_work, [c for c in chunks if c], ncpu()):
        for p, v in part:
            n += 1
            for key, what in v:
                if sum(1 for x in res.violations if x.key == key) < 2:
                    res.add(Violation(key, what, {"ao": True, "spec": p["spec"], "pre": p["pre"], "unnamed": bool(p.get("unnamed"))}))
    res.coverage["ao_part"] = {"executions": n, "forests_upto": N}
    res.coverage["evaluations"] = res.coverage.get("evaluations", 0) + n
    res.coverage["traces_validated_against_impl"] = res.coverage["evaluations"]


def replay(witness):
    if witness.get("ao"):
        from mc.common import Violation
        res = Result(PID)
        for _, v in _ao_work([{"spec": witness["spec"], "pre": witness["pre"], "unnamed": witness.get("unnamed")}]):
            for key, what in v:
                print(key, what)
                res.add(Violation(key, what, witness))
        return res
    return replay_generic(PID, witness, hsmrun.NAME_FIELDS)
