"""C23 - state_name / state_fn / current_state() always describe the current
state: after start_at and after every step of the C01 (transitions with init
chains), C02 (handled / declined / ignored events) and C03 (start) scenario
families, on every host."""
import random
from mc.common import Result, seed
from mc import forests as F, hsmrun
from mc.hsmcheck import sweep, VARIANTS_ALL, mixed_style, replay_generic
from mc.props import c01, c02, c03

PID = "C23"


def run(tier):
    res = Result(PID)
    N = 6 if tier == "quick" else 8
    rnd = random.Random(seed())
    allf = [f for n in range(1, N + 1) for f in F.forests(n)]
    rnd.shuffle(allf)
    sweep(res, [(c01.gen, allf, VARIANTS_ALL, [None]),
                (c02.gen, allf, VARIANTS_ALL, [None]),
                (c03.gen, allf, VARIANTS_ALL, [None, mixed_style])], fields=hsmrun.NAME_FIELDS)
    res.coverage.update({
        "rule": "scenario families of C01, C02, C03 on forests<=%d x 4 hosts; after start_at and after each of the "
                "two steps compare state_name, state_fn (handler or the function it decorates) and, on instrumented "
                "queued hosts, current_state() with the reference configuration" % N,
        "exhaustive": True})
    res.assumptions = ["reference configuration from the UML reference model"]
    return res


def replay(witness):
    return replay_generic(PID, witness, hsmrun.NAME_FIELDS)
