"""C06 - the fabric delivers each publication exactly once per subscription kind
to every subscribed queue and to no other queue; re-subscription changes nothing.

(a) BFS over operation sequences {start, subscribe(q, sig, kind), publish(sig)}
    on the real fabric (three queues, two of them distinct but equal plain
    deques, one LockingDeque; two signals; both kinds) with the real delivery
    threads run to quiescence after every operation, against a set model.
(b) subscribe/publish from two threads racing each other and the two delivery
    threads, every schedule to the preemption bound."""
from mc.common import Result, Violation, ToolingError
from mc import sched, aoenv, explore, fabric, aoharness as H
from mc.props.c05 import fill
from miros.event import Event
import miros.activeobject as ao

PID = "C06"
SIGS = ("A", "B")
KINDS = ("fifo", "lifo")
QN = ("deque0", "deque1", "locking")


class Seq(fabric.SeqHarness):
    name = "c06-seq"

    def apply(self, s, fab, qs, k, op, st):
        if op[0] == "start":
            fab.start()
        elif op[0] == "sub":
            fabric.do_subscribe(fab, qs, op[1], op[2], op[3])
        elif op[0] == "pub":
            fab.publish(Event(signal=op[1], payload="p%d" % k))
        else:
            raise AssertionError(op)


def model(ops):
    """expected multiset of deliveries per queue"""
    subs = set()
    started = False
    pending = []
    exp = [[], [], []]

    def deliver(sig, lab):
        for kind in KINDS:
            for qi in range(3):
                if (qi, sig, kind) in subs:
                    exp[qi].append(lab)

    for k, op in enumerate(ops):
        if op[0] == "start":
            started = True
        elif op[0] == "sub":
            subs.add((op[1], op[2], op[3]))
        elif op[0] == "pub":
            deliver(op[1], "%s/p%d" % (op[1], k))
    return subs, exp


def enabled(path):
    started = any(op[0] == "start" for op in path)
    out = []
    if not started:
        out.append(("start",))
    for qi in range(3):
        for sig in SIGS:
            for kind in KINDS:
                out.append(("sub", qi, sig, kind))
    if started:     # the property speaks about publications made while the fabric runs
        for sig in SIGS:
            out.append(("pub", sig))
    return out


def judge(path, ex):
    if ex.verdict != "done":
        return [("C06/seq/%s" % ex.verdict, "sequence %r ended with %s: %r" % (path, ex.verdict, ex.obs))]
    o = ex.obs
    out = []
    if o["thread_exceptions"]:
        out.append(("C06/seq/exception", "after %r a thread died: %r" % (path, o["thread_exceptions"])))
    subs, exp = model(path)
    for qi in range(3):
        got, want = sorted(o["contents"][qi]), sorted(exp[qi])
        if got != want:
            missing = [x for x in want if got.count(x) < want.count(x)]
            extra = [x for x in got if got.count(x) > want.count(x)]
            last = path[-1][0]
            what = "missing" if missing else "extra"
            stray = any(not any((qi, x.split("/")[0], k) in subs for k in KINDS) for x in extra)
            key = "C06/seq/%s/%s" % (QN[qi][:5], "stray" if stray else what)
            out.append((key, "after %r queue %s holds %r, the subscription history requires %r (real registry %r)" % (
                list(path), QN[qi], o["contents"][qi], exp[qi], o["registry"])))
    return out


def canon(path, ex):
    o = ex.obs
    started = any(op[0] == "start" for op in path)
    # rank publication labels by order of publication so that equal situations reached by different paths merge
    labs = []
    for k, op in enumerate(path):
        if op[0] == "pub":
            labs.append("%s/p%d" % (op[1], k))
    rank = {l: i for i, l in enumerate(labs)}
    cont = tuple(tuple((x.split("/")[0], rank.get(x, -1)) for x in c) for c in o["contents"])
    reg = tuple((kind, tuple((sig, tuple(l)) for sig, l in sorted(o["registry"][kind].items()))) for kind in KINDS)
    return (started, reg, cont)


# ------------------------------------------------------------------ (b) races

class Race:
    name = "c06-race"
    horizon = 6000
    lock_points = False     # an uncontended acquire is not a scheduling point of its own (the line before it is)
    fair_k = 80

    def __init__(self, mode="line"):
        self.mode, self._ready = mode, False

    def setup_process(self):
        if not self._ready:
            aoenv.install()
            sched.monitor(fabric.fabric_codes(), self.mode)
            self._ready = True

    def body(self, s, p):
        aoenv.reset()
        fab = ao.ActiveFabric()
        qs = fabric.make_queues()
        for op in p.get("pre", ()):
            fabric.do_subscribe(fab, qs, op[1], op[2], op[3])
        fab.start()
        s.settle()
        calls = []
        s.open_window()

        def worker(i, ops):
            for k, op in enumerate(ops):
                rec = {"op": list(op), "inv": s.steps, "thread": i}
                if op[0] == "sub":
                    fabric.do_subscribe(fab, qs, op[1], op[2], op[3])
                else:
                    rec["label"] = "%s/t%d.%d" % (op[1], i, k)
                    fab.publish(Event(signal=op[1], payload="t%d.%d" % (i, k)))
                rec["ret"] = s.steps
                calls.append(rec)

        for i, ops in enumerate(p["threads"]):
            sched.CThread(target=worker, args=(i, ops), name="w%d" % i).start()
        s.settle()
        mid = [fabric.contents(q) for q in qs]
        s.window = False        # the race is over: what follows runs under the default schedule
        # afterwards: one more publication per signal must reach exactly the queues subscribed by then
        for sig in SIGS:
            fab.publish(Event(signal=sig, payload="final"))
        s.settle()
        return {"calls": calls, "mid": mid, "contents": [fabric.contents(q) for q in qs],
                "registry": fabric.registry_of(fab, qs), "live": fabric.fabric_threads(s),
                "thread_exceptions": [x[:3] for x in s.thread_exceptions]}

    def on_abort(self, s, p):
        return {"threads": [x for x in s.snapshot if not x[2]][:8]}

    def check(self, p, ex):
        if ex.verdict != "done":
            return [("C06/race/%s" % ex.verdict, "execution ended with %s: %r" % (ex.verdict, ex.obs))]
        o = ex.obs
        out = []
        if o["thread_exceptions"]:
            out.append(("C06/race/exception", "a thread died: %r" % (o["thread_exceptions"],)))
        if len(o["calls"]) != sum(len(t) for t in p["threads"]):
            out.append(("C06/race/call-did-not-return", "calls=%r" % (o["calls"],)))
            return out
        pre = set((op[1], op[2], op[3]) for op in p.get("pre", ()))
        subs = [c for c in o["calls"] if c["op"][0] == "sub"]
        allsubs = pre | set((c["op"][1], c["op"][2], c["op"][3]) for c in subs)
        for c in o["calls"]:
            if c["op"][0] != "pub":
                continue
            sig, lab = c["op"][1], c["label"]
            for qi in range(3):
                need = sum(1 for kind in KINDS if (qi, sig, kind) in pre or
                           any(x["op"][1:] == [qi, sig, kind] and x["ret"] < c["inv"] for x in subs))
                may = sum(1 for kind in KINDS if (qi, sig, kind) in allsubs)
                n = o["contents"][qi].count(lab)
                if n < need:
                    out.append(("C06/race/missing", "publication %s (invoked at step %d) reached queue %s %d times; %d subscriptions "
                                "of that queue had returned before: calls %r" % (lab, c["inv"], QN[qi], n, need, o["calls"])))
                elif n > may:
                    out.append(("C06/race/%s" % ("stray" if may == 0 else "duplicate"),
                                "publication %s reached queue %s %d times, at most %d subscriptions exist: calls %r, registry %r" % (
                                    lab, QN[qi], n, may, o["calls"], o["registry"])))
        for sig in SIGS:
            lab = "%s/final" % sig
            for qi in range(3):
                want = sum(1 for kind in KINDS if (qi, sig, kind) in allsubs)
                n = o["contents"][qi].count(lab)
                if n != want:
                    out.append(("C06/race/final-%s" % ("missing" if n < want else "extra"),
                                "after all calls returned, a publication of %s reached queue %s %d times, subscriptions made: %d; "
                                "registry %r; calls %r" % (sig, QN[qi], n, want, o["registry"], o["calls"])))
        return out


def race_params(tier):
    q = tier == "quick"
    S = lambda qi, sig, kind: ("sub", qi, sig, kind)
    P = lambda sig: ("pub", sig)
    ps = [
        # two queues subscribe to the same new signal at once, then publish
        {"threads": [[S(0, "A", "fifo"), P("A")], [S(2, "A", "fifo"), P("A")]]},
        {"threads": [[S(0, "A", "lifo"), P("A")], [S(2, "A", "lifo")]]},
        # a subscription arrives while publications are being delivered
        {"pre": [S(0, "A", "fifo")], "threads": [[S(2, "A", "fifo")], [P("A"), P("A")]]},
        # the same queue re-subscribes while another queue subscribes
        {"pre": [S(0, "A", "fifo")], "threads": [[S(0, "A", "fifo"), P("A")], [S(1, "A", "fifo")]]},
        # equal-content deques
        {"pre": [S(0, "A", "fifo")], "threads": [[S(1, "A", "fifo")], [S(1, "A", "fifo"), P("A")]]},
        # different signals, same queue, both kinds
        {"threads": [[S(0, "A", "fifo"), S(0, "A", "lifo")], [S(0, "B", "fifo"), P("A")]]},
    ]
    if q:       # the two harnesses with two publications cost ~40 s each at bound 2: bound 1 in the quick tier
        ps[0]["bound"] = 1
        ps[2]["bound"] = 1
    if not q:
        ps += [
            {"threads": [[S(0, "A", "fifo")], [S(1, "A", "fifo")], [S(2, "A", "fifo")]]},
            {"threads": [[S(0, "A", "fifo"), P("A")], [S(2, "A", "fifo"), P("A")]], "bound": 3},
            {"pre": [S(2, "B", "lifo")], "threads": [[S(0, "B", "lifo"), P("B")], [S(1, "B", "lifo"), P("B")]]},
        ]
    return ps


def run(tier):
    res = Result(PID)
    q = tier == "quick"
    depth = 5 if q else 6
    b = fabric.bfs(PID, Seq(), None, depth, enabled, canon, judge)
    for v in b["violations"]:
        res.add(v)
    bound = 2
    st = explore.explore(Race("line"), race_params(tier), bound)
    rst = explore.explore(fabric.Restart(PID, "line"), fabric.restart_params(tier), 2)
    st.merge(rst)
    restart_cov = {"executions": rst.executions, "distinct_outcomes": len(rst.outcomes), "verdicts": rst.verdicts,
                   "what": "1-4 publications (priority 1 / default) made while the fabric runs, then stop(), optional publications while "
                           "stopped, start(); every schedule of the caller against the delivery threads with <= 1-2 preemptions"}
    ix = None
    if tier != "quick":
        ix = explore.extra(st, explore.hybrid(Race("instr")), [dict(p, bound=2.015) for p in race_params(tier)[:6] if len(p["threads"]) == 2],
                           2.015, 1200, "two-thread harnesses at instruction granularity, two preemptions of which at most one inside a source line")
    fill(res, st, bound, "line")
    if ix:
        res.coverage["instruction_extra"] = ix
    cov = res.coverage
    cov["restart_part"] = restart_cov
    cov["race_part"] = {"executions": st.executions, "scheduling_steps": st.steps, "distinct_outcomes": len(st.outcomes),
                        "verdicts": st.verdicts, "bound": bound}
    cov["sequential_part"] = {k: b[k] for k in ("states", "transitions", "verdicts", "depth")}
    cov["states"] = b["states"] + max(1, len(st.fps))
    cov["transitions"] = b["transitions"] + st.steps
    cov["evaluations"] = b["transitions"] + st.executions
    cov["traces_validated_against_impl"] = cov["evaluations"]
    cov["distinct_nontrivial"] = b["states"] + st.nontrivial
    cov["samples"] = b["samples"][:1] + cov.get("samples", [])
    cov["rule"] = ("(a) BFS to depth %d over {start, subscribe(3 queues x 2 signals x 2 kinds), publish(2 signals)} on the real fabric, "
                   "delivery threads run to quiescence after every op, states = (started, real registry by queue identity, queue "
                   "contents with publications ranked), every transition compares per-queue delivered multisets with a set model; "
                   "(b) %s" % (depth, cov["rule"]))
    if len(st.outcomes) < 2 and not res.violations:
        raise ToolingError("race harness did not collide: %d distinct outcomes" % len(st.outcomes))
    res.assumptions = ["a publication invoked before a concurrent subscribe call returned may or may not reach that queue",
                       "order of delivery is not part of this property (C08/C09)"]
    return res


def replay(w):
    res = Result(PID)
    if "ops" in w:
        path = tuple(tuple(o) for o in w["ops"])
        ex = fabric.run_ops(Seq(), path)
        print(ex.verdict, ex.obs)
        for key, what in judge(path, ex):
            res.add(Violation(key, what, w))
        return res
    ex, v = explore.replay(fabric.Restart(PID, "line") if str(w.get("harness", "")).endswith("-restart") else Race("line"), w)
    print(ex.verdict, ex.obs)
    for key, what in v:
        res.add(Violation(key, what, w))
    return res
