"""C24 - impossible initial transitions (and handlers that return no status)
raise HsmTopologyException instead of hanging or entering wrong states.

Every forest, exactly one malformation, every way of reaching it by start_at
or by a later event."""
import random
from mc.common import Result, Violation, seed, pmap, ncpu
from mc import forests as F, hsmrun
from mc.hsmcheck import split, VARIANTS_ALL

PID = "C24"


def relation(parent, X, Y):
    if Y == X:
        return "self"
    if Y in F.path(parent, X):
        return "ancestor"
    if parent[Y] == parent[X]:
        return "sibling"
    return "elsewhere"


def good_chains_into(parent, X):
    """well-formed init chains (S, ..., X) ending at X, including (X,)"""
    out = [(X,)]
    pX = F.path(parent, X)[1:]       # proper ancestors, innermost first
    def rec(chain):
        first = chain[0]
        for a in F.path(parent, first)[1:]:
            c2 = (a,) + chain
            out.append(c2)
            rec(c2)
    rec((X,))
    return out


def gen(parent):
    n = len(parent)
    desc = {x: set(F.descendants(parent, x)) for x in range(n)}
    # (1) bad init X -> Y
    for X in range(n):
        for Y in range(n):
            if Y in desc[X]:
                continue
            rel = relation(parent, X, Y)
            for chain in good_chains_into(parent, X):
                init = {chain[i]: chain[i + 1] for i in range(len(chain) - 1)}
                init[X] = Y
                S0 = chain[0]
                # reached by start_at: start at the head of the chain
                yield ({"parent": parent, "init": init, "react": {}, "start": S0, "events": []},
                       "start", "bad-init-%s" % rel)
                # reached by dispatch: rest in c (no init, path must not force the bad init),
                # a state on path(c) transitions to the head of the chain
                for c in range(n):
                    if c in init:
                        continue
                    for S in F.path(parent, c):
                        yield ({"parent": parent, "init": init, "react": {(S, "A"): ("T", S0)},
                                "start": c, "events": ["A"]}, "dispatch", "bad-init-%s" % rel)
    # (2) a handler that returns no status
    for X in range(n):
        # for user signals only: the chart can rest at or below X and offer it the event
        for c in [X] + sorted(desc[X]):
            yield ({"parent": parent, "init": {}, "react": {}, "start": c, "events": ["A"],
                    "none_state": X, "none_mode": "user"}, "dispatch", "none-on-event")
        # for every signal: start_at through it, and transitions into it from outside
        for c in [X] + sorted(desc[X]):
            yield ({"parent": parent, "init": {}, "react": {}, "start": c, "events": [],
                    "none_state": X, "none_mode": "all"}, "start", "none-always")
        for c in range(n):
            if c == X or c in desc[X]:
                continue
            for S in F.path(parent, c):
                for Tt in [X] + sorted(desc[X]):
                    yield ({"parent": parent, "init": {}, "react": {(S, "A"): ("T", Tt)}, "start": c,
                            "events": ["A"], "none_state": X, "none_mode": "all"}, "dispatch", "none-always")


def classify(obs_list, nevents):
    """what the implementation did at the step that meets the malformation"""
    last = obs_list[-1]
    if "exception" in last:
        e = last["exception"]
        if e.startswith("HsmTopologyException"):
            return "raised"
        if e.startswith("BudgetExceeded"):
            return "hang"
        return "other-exception:" + e.split(":")[0]
    if len(obs_list) == nevents + 1:
        return "normal-return"
    return "?"


def work(task):
    parents, variants = task
    n_eval = 0
    viol = []
    outcomes = {}
    sample = None
    kinds = set()
    for parent in parents:
        for base, via, kind in gen(parent):
            for host, fam in variants:
                spec = hsmrun.norm(dict(base, host=host, family=fam))
                obs = hsmrun.run_impl(spec, budget=3000)
                n_eval += 1
                got = classify(obs, len(spec["events"]))
                # which step failed: start_at (index 0) or the dispatch
                step_failed = len(obs) - 1 if "exception" in obs[-1] else None
                expect_step = 0 if via == "start" else 1
                ok = got == "raised" and step_failed == expect_step
                if kind == "none-always" and via == "dispatch" and got == "normal-return":
                    # the event is never *offered* to the faulty state here (it is only asked for its
                    # parent / entered); the property demands an exception only for offered events
                    # and for impossible initial transitions - here only termination is required
                    ok = True
                outcomes[(via, kind, got)] = outcomes.get((via, kind, got), 0) + 1
                kinds.add((via, kind))
                if not ok:
                    if via == "dispatch" and step_failed == 0:
                        key = "C24/tooling/start-failed-unexpectedly"
                    else:
                        key = "C24/%s/%s/%s" % (via, kind, got.split(":")[0])
                    if sum(1 for v in viol if v["key"] == key) < 3:
                        viol.append(Violation(key, "%s reached by %s: processor outcome '%s' instead of HsmTopologyException"
                                              % (kind, via, got), hsmrun.dump(spec)).to_json())
                if sample is None and via == "dispatch":
                    sample = {"spec": hsmrun.dump(spec), "expected": "HsmTopologyException at step %d" % expect_step,
                              "observed": got}
    return n_eval, viol, outcomes, sample, len(kinds)


def run(tier):
    res = Result(PID)
    N = 6 if tier == "quick" else 8
    rnd = random.Random(seed())
    allf = [f for n in range(1, N + 1) for f in F.forests(n)]
    rnd.shuffle(allf)
    tasks = [(b, VARIANTS_ALL) for b in split(allf, ncpu() * 3)]
    out = pmap(work, tasks)
    outcomes = {}
    for o in out:
        for k, v in o[2].items():
            outcomes[k] = outcomes.get(k, 0) + v
        for v in o[1]:
            res.add(Violation.from_json(v))
    ev = sum(o[0] for o in out)
    if any(v.key.startswith("C24/tooling") for v in res.violations):
        from mc.common import ToolingError
        raise ToolingError("a scenario failed before reaching the malformation: %s" % res.violations[0].witness)
    res.coverage = {
        "states": len(outcomes), "transitions": ev, "traces_validated_against_impl": ev,
        "evaluations": ev, "distinct_nontrivial": sum(v for (via, k, g), v in outcomes.items() if via == "dispatch"),
        "rule": "every forest<=%d states x one malformation (init target not a proper descendant: self/ancestor/"
                "sibling/elsewhere, through every well-formed init chain leading to it; handler returning None for "
                "user signals or for all signals) x reached by start_at or by a transition from every resting state "
                "x 4 hosts; non-trivial = reached by a later event" % N,
        "samples": [o[3] for o in out if o[3]][:3],
        "outcomes": {"%s/%s/%s" % k: v for k, v in sorted(outcomes.items())},
        "exhaustive": True}
    res.assumptions = ["a hang is detected by a call budget of 3000 handler/top invocations per scenario "
                       "(well-formed steps on these charts need < 200)"]
    return res


def replay(witness):
    res = Result(PID)
    spec = hsmrun.norm(witness)
    obs = hsmrun.run_impl(spec, budget=3000)
    got = classify(obs, len(spec["events"]))
    print("observed:", obs[-1], "->", got)
    if got != "raised":
        res.add(Violation("C24/replay/%s" % got.split(":")[0], "outcome %s" % got, witness))
    return res
