"""C25 - signal names and numbers form a stable one-to-one registry, even under
threads.  (a) BFS over operation sequences on a fresh registry vs dict+counter;
(b) 2-3 threads x 1-2 registry operations with colliding names, every schedule
to the preemption bound, invariant evaluated at every scheduling point."""
import itertools
from mc.common import Result, Violation, ToolingError
from mc import sched, aoenv, explore
from mc.props.c05 import fill
import miros.event as mevent
from miros.event import Event

PID = "C25"
NAMES = ["X", "Y", "ENTRY_SIGNAL", "", "a b", "é", "PUBLISH_META_SIGNAL"]
BUILTIN = ["ENTRY_SIGNAL", "EXIT_SIGNAL", "INIT_SIGNAL", "REFLECTION_SIGNAL", "EMPTY_SIGNAL", "SEARCH_FOR_SUPER_SIGNAL",
           "STOP_FABRIC_SIGNAL", "STOP_ACTIVE_OBJECT_SIGNAL", "SUBSCRIBE_META_SIGNAL", "PUBLISH_META_SIGNAL"]


class FreshRegistry:
    """swap a fresh SignalSource into miros.event for the duration"""

    def __enter__(self):
        self.old = mevent.signals
        mevent.signals = mevent.SignalSource()
        return mevent.signals

    def __exit__(self, *a):
        mevent.signals = self.old


def do_op(sig, op, model):
    """perform op on the real registry, return (observation, expected) ; model: name -> number"""
    kind, name = op
    def reg(n):
        if n not in model:
            model[n] = len(model) + 1
    if kind == "append":
        sig.append(name)
        reg(name)
        return None, None
    if kind == "getattr":
        got = getattr(sig, name)
        reg(name)
        return got, model[name]
    if kind == "item":
        sig.append(name)
        reg(name)
        return sig[name], model[name]
    if kind == "event_name":
        e = Event(signal=name)
        reg(name)
        return (e.signal_name, e.signal), (name, model[name])
    if kind == "event_number":
        if name not in model:
            return None, None
        e = Event(signal=model[name])
        return (e.signal_name, e.signal), (name, model[name])
    if kind == "name_for":
        if name not in model:
            return None, None
        return sig.name_for_signal(model[name]), name
    if kind == "is_inner":
        reg_known = name in model
        return (sig.is_inner_signal(name) if reg_known else None,
                sig.is_inner_signal(model[name]) if reg_known else None), \
               ((name in BUILTIN) if reg_known else None, (name in BUILTIN) if reg_known else None)
    raise AssertionError(kind)


def invariant(sig, history):
    """numbers are distinct positive ints and never change; returns error text or None"""
    items = list(sig.items())
    nums = [v for _, v in items]
    if any((not isinstance(v, int)) or v <= 0 for v in nums):
        return "non-positive or non-int number in %r" % (items[-4:],)
    if len(set(nums)) != len(nums):
        dup = [(k, v) for k, v in items if nums.count(v) > 1]
        return "two names share a number: %r" % (dup,)
    for k, v in items:
        if history.setdefault(k, v) != v:
            return "number of %r changed from %r to %r" % (k, history[k], v)
    return None


def seq_bfs(depth):
    ops = [(k, n) for k in ("append", "getattr", "event_name") for n in NAMES if not (k == "getattr" and (n in ("", "a b")))]
    ops += [(k, n) for k in ("event_number", "name_for", "is_inner") for n in NAMES]
    seen = set()
    frontier = [[]]
    ntrans = 0
    viol = []
    samples = []
    for d in range(depth):
        nxt = []
        for path in frontier:
            for op in ops:
                seq = path + [op]
                with FreshRegistry() as sig:
                    model = {n: i + 1 for i, n in enumerate(BUILTIN)}
                    hist = {}
                    bad = None
                    for o in seq:
                        try:
                            got, want = do_op(sig, o, model)
                        except Exception as e:  # noqa
                            bad = ("exception", "%r raised %s: %s after %r" % (o, type(e).__name__, e, seq))
                            break
                        if got != want:
                            bad = ("answer/%s" % o[0], "%r gave %r, expected %r (sequence %r)" % (o, got, want, seq))
                            break
                        err = invariant(sig, hist)
                        if err is None and dict(sig) != model:
                            err = "registry %r differs from model %r" % (list(sig.items())[10:], list(model.items())[10:])
                        if err:
                            bad = ("invariant", "%s after %r" % (err, seq))
                            break
                    ntrans += 1
                    if bad:
                        key = "C25/seq/%s" % bad[0]
                        if sum(1 for v in viol if v[0] == key) < 2:
                            viol.append((key, bad[1], {"ops": [list(o) for o in seq]}))
                        continue
                    state = tuple(sorted(model.items(), key=lambda kv: kv[1]))[10:]
                    if state not in seen:
                        seen.add(state)
                        nxt.append(seq)
                        if len(samples) < 1 and len(seq) >= 3:
                            samples.append({"ops": [list(o) for o in seq], "registry_tail": list(state)})
        frontier = nxt
    return len(seen), ntrans, viol, samples


THREAD_OPS = {
    "append": lambda sig, n: sig.append(n),
    "getattr": lambda sig, n: getattr(sig, n),
    "event": lambda sig, n: Event(signal=n),
    # reverse lookup of the last built-in signal (walks the whole registry) while another thread registers
    "name_for_last_builtin": lambda sig, n: sig.name_for_signal(10),
}


class Racing:
    name = "c25-racing"
    horizon = 6000

    def __init__(self, mode):
        self.mode, self._ready = mode, False

    def setup_process(self):
        if not self._ready:
            aoenv.install()
            sched.monitor(sched.code_objects_of(mevent), self.mode)
            self._ready = True

    def body(self, s, p):
        with FreshRegistry() as sig:
            # a repaired registry may carry a lock created at import time: give it a controlled one
            for holder in (mevent, sig):
                aoenv.fresh_locks(holder)
            hist = {}
            inv_err = []
            s.fingerprint = lambda: tuple(sig.items())[10:]
            results = {}

            def inv_point():
                try:
                    e = invariant(sig, hist)
                except RuntimeError:        # dict changed size while we iterate: we are between two atomic steps
                    return
                if e and not inv_err:
                    inv_err.append(e)
            s.on_point = inv_point
            s.open_window()

            def worker(i, ops):
                out = []
                for kind, n in ops:
                    try:
                        r = THREAD_OPS[kind](sig, n)
                        if kind == "event":
                            r = (r.signal_name, r.signal)
                        out.append(["ok", kind, n, r])
                    except Exception as e:  # noqa
                        out.append(["raised", kind, n, "%s: %s" % (type(e).__name__, e)])
                results[i] = out

            for i, ops in enumerate(p["threads"]):
                sched.CThread(target=worker, args=(i, ops), name="w%d" % i).start()
            s.settle()
            s.on_point = None
            final = list(sig.items())[10:]
            e = invariant(sig, hist)
            if e and not inv_err:
                inv_err.append(e)
            # name_for_signal inverts the binding
            try:
                inverse_ok = all(sig.name_for_signal(v) == k for k, v in sig.items())
            except Exception as e:  # noqa
                inverse_ok = "name_for_signal raised %s: %s" % (type(e).__name__, e)
            return {"results": [results.get(i) for i in range(len(p["threads"]))], "final": final,
                    "invariant": inv_err[:1], "inverse_ok": inverse_ok}

    def check(self, p, ex):
        if ex.verdict != "done":
            return [("C25/threads/%s" % ex.verdict, "execution ended with %s: %r" % (ex.verdict, ex.obs))]
        o = ex.obs
        out = []
        if o["invariant"]:
            out.append(("C25/threads/invariant", o["invariant"][0] + " (final registry tail %r)" % (o["final"],)))
        final = dict(o["final"])
        for i, res in enumerate(o["results"]):
            if res is None:
                out.append(("C25/threads/thread-died", "worker %d did not finish" % i))
                continue
            for (st, kind, n, r) in res:
                if st == "raised":
                    out.append(("C25/threads/exception/%s" % r.split(":")[0], "%s(%r) raised %s" % (kind, n, r)))
                elif kind == "name_for_last_builtin":
                    if r != "PUBLISH_META_SIGNAL":
                        out.append(("C25/threads/answer", "name_for_signal(10) returned %r" % (r,)))
                elif kind == "getattr" and r != final.get(n):
                    out.append(("C25/threads/answer", "getattr(%r) returned %r but the registry binds it to %r" % (n, r, final.get(n))))
                elif kind == "event" and (r[0] != n or r[1] != final.get(n)):
                    out.append(("C25/threads/answer", "Event(%r) reports %r but the registry binds it to %r" % (n, r, final.get(n))))
        want_names = sorted(set(n for ops in p["threads"] for _, n in ops))
        if sorted(final) != want_names:
            out.append(("C25/threads/final-names", "registered %r, expected %r" % (sorted(final), want_names)))
        if o["inverse_ok"] is not True:
            out.append(("C25/threads/inverse", "name_for_signal does not invert the final registry %r (%s)" % (o["final"], o["inverse_ok"])))
        return out[:3]


def thread_params(tier):
    ps = []
    kinds = ["append", "getattr", "event"]
    for k1, k2 in itertools.combinations_with_replacement(kinds, 2):
        ps.append({"threads": [[(k1, "X")], [(k2, "X")]]})          # the same new name in two threads
        ps.append({"threads": [[(k1, "X")], [(k2, "Y")]]})          # two new names
    ps.append({"threads": [[("event", "X"), ("getattr", "Y")], [("getattr", "Y"), ("event", "X")]]})
    for k in kinds:
        ps.append({"threads": [[("name_for_last_builtin", "X")], [(k, "X"), (k, "Y")]]})
    if tier != "quick":
        ps.append({"threads": [[("append", "X")], [("event", "Y")], [("getattr", "Z")]]})
        ps.append({"threads": [[("event", "X"), ("event", "Y")], [("event", "Y"), ("event", "X")]]})
    return ps


def run(tier):
    res = Result(PID)
    q = tier == "quick"
    nstates, ntrans, viol, samples = seq_bfs(3 if q else 4)
    for key, what, w in viol:
        res.add(Violation(key, what, w))
    bound = 2
    st = explore.explore(Racing("line" if q else "instr"), thread_params(tier), bound)
    fill(res, st, bound, "line" if q else "instruction", "; plus sequential BFS over %d registry-operation sequences "
         "(depth <= %d, %d distinct registries) against dict+counter" % (ntrans, 3 if q else 4, nstates))
    res.coverage["states"] += nstates
    res.coverage["transitions"] += ntrans
    res.coverage["samples"] += samples
    res.assumptions = ["attribute access restricted to names that are not attributes of OrderedDict",
                       "scheduling points at %s granularity inside miros/event.py" % ("source-line" if q else "instruction")]
    return res


def replay(w):
    res = Result(PID)
    if "choices" in w:
        ex, v = explore.replay(Racing("line"), w)
        print(ex.verdict, ex.obs)
        for key, what in v:
            res.add(Violation(key, what, w))
    else:
        print("sequential witness:", w)
    return res
