"""C32 - stripped() makes trace comparison timestamp-insensitive.

Traces are produced by real miros charts (scripted clock, several chart names,
1-3 records); every perturbation of a catalogue is applied; equality after
stripping must hold exactly for the perturbations that only touch timestamps,
blank lines or whitespace around lines; a single line must strip to the same
text as that line inside a block."""
import datetime as _dt, itertools
from mc.common import Result, Violation, load_miros
load_miros()
import miros.hsm as hsm
from miros.hsm import stripped
from mc import charts
from mc.charts import Table, use, SIG, ev

PID = "C32"


class Clock(_dt.datetime):
    """scripted stand-in for hsm.stdlib_datetime"""
    _t = [0]
    base = _dt.datetime(2017, 11, 5, 15, 17, 39, 424492)
    step = 137

    @classmethod
    def now(cls, tz=None):
        cls._t[0] += 1
        return cls.base + _dt.timedelta(microseconds=cls.step * cls._t[0])


def make_trace(name, nrec, base, step):
    """a real trace text with nrec records"""
    Clock._t[0] = 0
    Clock.base, Clock.step = base, step
    old = hsm.stdlib_datetime
    hsm.stdlib_datetime = Clock
    try:
        parent = (-1, 0, 0)
        react = {(1, SIG["A"]): ("T", 2), (2, SIG["A"]): ("T", 1), (0, SIG["B"]): ("T", 0)}
        t = Table(parent, react=react)
        use(t, "spied")
        h = charts.new_host("queued")
        h.name = name
        h.start_at(t.S[1])
        for k in range(nrec - 1):
            h.post_fifo(ev("A" if k % 2 == 0 else "B"))
            h.next_rtc()
        return h.trace()
    finally:
        hsm.stdlib_datetime = old


def strip(text):
    with stripped(text) as s:
        return s


def lines_of(text):
    return [l for l in text.splitlines() if l.strip()]


def perturbations(text):
    """(label, new_text, must_be_equal)"""
    ls = lines_of(text)
    def join(xs, lead="\n", tail="\n"):
        return lead + "\n".join(xs) + tail
    yield "identity", text, True
    yield "blank-lines-between", join([x for l in ls for x in (l, "", "   ")]), True
    yield "blank-lines-around", "\n\n" + join(ls) + "\n\n", True
    yield "leading-spaces", join(["    " + l for l in ls]), True
    yield "trailing-spaces", join([l + "   " for l in ls]), True
    yield "tabs-around", join(["\t" + l + "\t" for l in ls]), True
    yield "no-outer-newlines", "\n".join(ls) + ("\n" if len(ls) == 1 else ""), True
    yield "crlf", "\r\n".join([""] + ls + [""]), True
    # timestamps of other widths on some of the lines (an instant without its fraction, a date only, a longer one):
    # still only timestamps differ
    def restamp(l, stamp):
        return "[" + stamp + "] " + l.split("] ", 1)[1]
    if len(ls) >= 2:
        yield "short-timestamp-on-later-lines", join([ls[0]] + [restamp(l, "2017-11-05 15:17:39") for l in ls[1:]]), True
        yield "short-timestamp-on-first-line", join([restamp(ls[0], "15:17:39")] + ls[1:]), True
        yield "long-timestamp-on-last-line", join(ls[:-1] + [restamp(ls[-1], "2017-11-05 15:17:39.424492 000")]), True
        yield "mixed-widths", join([restamp(l, "2017-11-05 15:17:39." + "4" * (1 + i % 6)) for i, l in enumerate(ls)]), True
    if len(ls) >= 1:
        yield "state-renamed", join([l.replace("->s", "->z", 1) if i == len(ls) - 1 else l for i, l in enumerate(ls)]), False
        yield "signal-renamed", join([l.replace("e->", "e->X", 1) if i == 0 else l for i, l in enumerate(ls)]), False
        yield "chart-renamed", join([l.replace("] [", "] [q", 1) if i == 0 else l for i, l in enumerate(ls)]), False
    if len(ls) >= 2:
        yield "record-dropped", join(ls[:-1]), False
        yield "record-dropped-first", join(ls[1:]), False
        if ls[0].split("] ", 1)[1] != ls[1].split("] ", 1)[1]:
            yield "records-swapped", join([ls[1], ls[0]] + ls[2:]), False
        yield "record-duplicated", join(ls + [ls[-1]]), False


def run(tier):
    res = Result(PID)
    names = ["a", "75c8c", "12", "x y", None, "né", "10.0.0.7", "2017-11-05 15:17", "7", "-", "a-b.c:d"]
    stamps = [(_dt.datetime(2017, 11, 5, 15, 17, 39, 424492), 137), (_dt.datetime(1999, 12, 31, 23, 59, 59, 999000), 997),
              (_dt.datetime(2030, 1, 1, 0, 0, 0, 0), 0)]
    n = 0
    kinds = set()
    samples = []
    for name in names:
        for nrec in ((1, 2, 3, 4) if tier == "quick" else (1, 2, 3, 4, 5, 6, 7)):
            base_text = make_trace(name, nrec, *stamps[0])
            base_strip = strip(base_text)
            want = [l.split("] ", 1)[1] for l in lines_of(base_text)]
            n += 1
            # what stripping means: the non-empty lines without their leading timestamp
            got = base_strip if isinstance(base_strip, list) else [base_strip]
            if got != want:
                res.add(Violation("C32/content/records=%d" % nrec, "stripped(%r) = %r, expected %r" % (base_text, base_strip, want),
                                  {"text": base_text}))
            for (b, st) in stamps:
                other = make_trace(name, nrec, b, st)
                for label, text, equal in perturbations(other):
                    n += 1
                    kinds.add((label, nrec, name))
                    s2 = strip(text)
                    a = base_strip if isinstance(base_strip, list) else [base_strip]
                    c = s2 if isinstance(s2, list) else [s2]
                    if (a == c) != equal:
                        res.add(Violation("C32/%s/%s" % ("should-be-equal" if equal else "should-differ", label),
                                          "perturbation %s of a %d-record trace: stripped forms %s; %r vs %r" % (
                                              label, nrec, "differ" if equal else "are equal", a, c),
                                          {"base": base_text, "other": text, "perturbation": label}))
                    if len(samples) < 2 and label == "tabs-around" and nrec == 2:
                        samples.append({"base": base_text, "other": text, "stripped": c})
            # single line: the same line alone and inside a block
            for l in lines_of(base_text):
                for label, single in (("plain", l), ("leading-spaces", "   " + l), ("trailing-spaces", l + "  "),
                                      ("leading-tab", "\t" + l), ("trailing-newline", l + "\n")):
                    n += 1
                    kinds.add(("single-" + label, nrec, name))
                    inside = strip("\n" + l + "\n" + l + "\n")[0]
                    alone = strip(single)
                    if alone != inside:
                        res.add(Violation("C32/single-line/%s" % label, "single line %r strips to %r but to %r inside a block" % (
                            single, alone, inside), {"line": single}))
    res.coverage = {"evaluations": n, "distinct_nontrivial": len(kinds), "states": len(kinds), "transitions": n,
                    "traces_validated_against_impl": n,
                    "rule": "traces produced by a real queued chart (names %r, 1-4 (thorough 1-7) records, 3 clock scripts) x catalogue of %d "
                            "perturbations (incl. timestamps of differing widths within one trace) + single-line forms; distinct = (perturbation, records, chart name)" % (names, 19),
                    "samples": samples, "exhaustive": True}
    res.assumptions = ["state / signal / chart names contain no brackets or newlines"]
    return res


def replay(w):
    res = Result(PID)
    for k in ("base", "other", "line", "text"):
        if k in w:
            print(k, repr(w[k]), "->", strip(w[k]))
    return res
