"""C05 - posting to an active object always returns; the system reaches
quiescence.  2-3 posters (fifo / lifo / mixed) against a running consumer,
every schedule with <= k preemptions at source-line granularity, fair suffix."""
from mc.common import Result, Violation
from mc import sched, aoenv, explore, aoharness as H
from miros.event import Event

PID = "C05"


class Posters:
    name = "c05-posters"
    horizon = 2000
    lock_points = False     # locks of the signal registry / singletons: a preemption before an uncontended
    #                         acquire is equivalent to one at the thread's previous scheduling point
    fair_k = 60

    def __init__(self, mode="line", codes="core"):
        self.mode = mode
        self.codes = codes
        self._ready = False

    def setup_process(self):
        if not self._ready:
            aoenv.install()
            sched.monitor(H.pick_codes(H.QUEUE_CORE) if self.codes == "core" else
                          (H.pick_codes(H.TOKEN_PROTOCOL) if self.codes == "tokens" else H.ao_codes()), self.mode)
            self._ready = True

    def body(self, s, p):
        aoenv.reset()
        script, klass = None, None
        if p.get("self_post"):          # the handler of A posts B to its own chart
            script = {"A": [("post_fifo" if p["self_post"] == "fifo" else "post_lifo", "B", "h")]}
        if p.get("sub_qsize"):          # a subclass with a smaller QUEUE_SIZE (the documented way to size an active object)
            import miros.activeobject as ao_mod
            klass = type("SmallAO", (ao_mod.ActiveObject,), {"QUEUE_SIZE": p["sub_qsize"]})
        with H.QueueSize(p.get("qsize")):
            ao = H.new_ao("ao", H.make_state(script=script), klass=klass)
        s.settle()
        ld = ao.locking_deque
        s.fingerprint = lambda: (tuple(H.label_of(x) for x in ld.deque), ld.locking_queue._qsize())
        s.open_window()
        done = []

        def poster(i, kind):
            e = Event(signal="A", payload="p%d" % i)
            (ao.post_fifo if kind == "fifo" else ao.post_lifo)(e)
            done.append(i)
            s.note("post-returned", i)

        ts = []
        for i, kind in enumerate(p["kinds"]):
            t = sched.CThread(target=poster, args=(i, kind), name="poster%d" % i)
            t.start()
            ts.append(t)
        s.settle()
        self.ao = ao
        return self.observe(s, p, ao, done)

    def observe(self, s, p, ao, done):
        return {"returned": sorted(done), "deque": [H.label_of(x) for x in ao.locking_deque.deque],
                "tokens": ao.locking_deque.locking_queue._qsize(),
                "dispatched": H.dispatch_log(s, "ao"),
                "consumer": [t.label for t in s.threads if t.name == "ao"],
                "thread_exceptions": [x[:3] for x in s.thread_exceptions]}

    def on_abort(self, s, p):
        # horizon / deadlock: report who was still running
        return {"threads": [x for x in s.snapshot if not x[2]][:8]}

    def check(self, p, ex):
        out = []
        if ex.verdict == "horizon":
            out.append(("C05/livelock/posters=%d/qsize=%s" % (len(p["kinds"]), p.get("qsize") or 500),
                        "no quiescence within %d scheduling points under the fair scheduler after %d deviations; "
                        "still running: %r" % (self_horizon(self), ex.cost, ex.obs.get("threads"))))
            return out
        if ex.verdict == "deadlock":
            out.append(("C05/deadlock", "all threads blocked with a poster unfinished: %r" % (ex.obs,)))
            return out
        o = ex.obs
        if o["thread_exceptions"]:
            out.append(("C05/exception", "a thread died: %r" % (o["thread_exceptions"],)))
        if o["returned"] != list(range(len(p["kinds"]))):
            out.append(("C05/post-did-not-return", "returned=%r" % (o["returned"],)))
        if o["deque"] or o["consumer"] != ["queue.get(empty)"]:
            out.append(("C05/not-quiescent", "at quiescence deque=%r tokens=%r consumer=%r" % (
                o["deque"], o["tokens"], o["consumer"])))
        return out


QMAX, OMAX = 10, 60


class PeriodicPosters(Posters):
    """the default schedule is replaced by a fair periodic one: from scheduling point `o` of the window on, poster `who`
    runs at most `q` points in a row, then every other enabled thread runs until it blocks, then the poster again.
    Every thread keeps taking steps (fair), the poster is preempted once per round: a retry loop whose exit test can be
    defeated by the other threads in every round never terminates - and the run reaches the horizon."""
    name = "c05-periodic"
    fair_k = 10 ** 9

    def policy(self, p):
        who, q, o = "poster%d" % p["who"], p["q"], p["o"]
        st = {"run": 0}

        def choose(s, opts, costs, label):
            cur = s.current
            if len(s.trace) < o:
                return 0
            names = [getattr(t, "name", None) for t in opts]
            if opts[0] is cur and cur.name == who:
                st["run"] += 1
                if st["run"] > q:
                    st["run"] = 0
                    for k, t in enumerate(opts):
                        if t is not cur and t is not sched.CLOCK:
                            return k
                return 0
            if opts[0] is cur:
                return 0                    # somebody else keeps running until it blocks
            # the running thread blocked or finished: anybody but the poster first
            for k, nm in enumerate(names):
                if nm != who and opts[k] is not sched.CLOCK:
                    return k
            st["run"] = 0
            return 0
        return choose


def periodic(tier):
    ps = []
    for base in params(tier):
        if base.get("self_post"):
            continue
        for who in range(len(base["kinds"])):
            if who > 0 and base["kinds"][who] == base["kinds"][0]:
                continue
            for q in range(1, QMAX + 1):
                for o in range(0, OMAX + 1, 1 if tier != "quick" else 2):
                    ps.append(dict(base, who=who, q=q, o=o, bound=0))
    return explore.explore(PeriodicPosters("line"), ps, 0), len(ps)


def self_horizon(h):
    return h.horizon


def params(tier):
    ps = []
    for kinds in (["fifo", "fifo"], ["lifo", "lifo"], ["fifo", "lifo"]):
        ps.append({"kinds": kinds, "qsize": None})
        ps.append({"kinds": kinds, "qsize": 3})
    # a chart that posts to itself from its handlers, on a subclass with a small QUEUE_SIZE, posters racing ahead
    ps.append({"kinds": ["fifo", "fifo", "fifo"], "qsize": None, "sub_qsize": 2, "self_post": "fifo", "bound": 1})
    ps.append({"kinds": ["lifo", "fifo"], "qsize": None, "sub_qsize": 1, "self_post": "lifo", "bound": 1})
    if tier == "thorough":
        for kinds in (["fifo", "fifo", "fifo"], ["fifo", "lifo", "fifo"], ["lifo", "lifo", "lifo"]):
            ps.append({"kinds": kinds, "qsize": 3})
        ps.append({"kinds": ["fifo", "fifo", "fifo"], "qsize": None, "sub_qsize": 2, "self_post": "fifo", "bound": 2})
    return ps


def run(tier):
    res = Result(PID)
    bound = 2
    h = Posters("line")
    st = explore.explore(h, params(tier), bound)
    # instruction granularity for the two-poster harnesses (a preemption inside one source line)
    # (token-protocol code only; two preemptions of which at most one inside a source line; thorough adds one harness
    # with both anywhere)
    ips = [dict(p, bound=2.015) for p in params(tier) if len(p["kinds"]) == 2 and not p.get("self_post")][: (1 if tier == "quick" else 6)]
    hy = Posters("instr", "tokens")
    hy.intra_cost = 1.01
    st.merge(explore.explore(hy, ips, 2.015))
    if tier != "quick":
        st.merge(explore.explore(Posters("instr", "tokens"), [dict(params(tier)[0])], 2))
    # fair periodic schedules (see PeriodicPosters): livelocks that need a preemption in every iteration of a retry loop
    pst, nper = periodic(tier)
    st.merge(pst)
    fill(res, st, bound, "line", "; plus the two-poster harnesses at instruction granularity; plus %d fair periodic schedules {one poster runs q = 1..%d scheduling points, then every other thread "
         "runs until it blocks; the regime starts at point o = 0..%d}: a run that reaches the horizon under such a schedule is a "
         "livelock with unboundedly many preemptions" % (nper, QMAX, OMAX))
    return res


def fill(res, st, bound, gran, extra_rule=""):
    for key, what, w in st.violations:
        res.add(Violation(key, what, w))
    res.coverage = {
        "states": max(1, len(st.fps)), "transitions": st.steps,
        "traces_validated_against_impl": st.executions,
        "evaluations": st.executions, "distinct_nontrivial": st.nontrivial,
        "rule": "every schedule of the harness with <= %d deviations (preemptions / early timer) at %s-level "
                "scheduling points inside the race window; non-trivial = at least one deviation from the default schedule "
                "(each explored once); states = distinct (thread positions, shared-object) fingerprints%s" % (bound, gran, extra_rule),
        "samples": [st.sample] if st.sample else [],
        "distinct_outcomes": len(st.outcomes), "verdicts": st.verdicts,
        "bound_completed": bound if not st.capped else None, "exhaustive": not st.capped,
        "stopped_at_first_new_violation": st.stopped_early,
        "audit": st.audit}
    return res


def replay(witness):
    res = Result(PID)
    h = PeriodicPosters("line") if witness.get("harness") == "c05-periodic" else Posters("line")
    ex, v = explore.replay(h, witness)
    print("verdict:", ex.verdict, "obs:", ex.obs)
    for key, what in v:
        res.add(Violation(key, what, witness))
    return res
