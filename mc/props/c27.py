"""C27 - thread-safe attributes lose no updates and never fail under
concurrency.  2-3 threads x 1-2 statements from {x = o.a, o.a = v, o.a += 1,
o.a -= 1} (statements live in a generated source file: the descriptor reads
the caller's source line); every schedule to the preemption bound with
scheduling points at every lock operation and every line (quick) /
shared-access instruction (thorough) of the descriptor."""
import os, tempfile, shutil, importlib.util, itertools, atexit
from mc.common import Result, Violation, ToolingError
from mc import sched, aoenv, explore
from mc.props.c05 import fill
import miros.thread_safe_attributes as tsa

PID = "C27"
STMTS = {"read": "x = o.a", "set5": "o.a = 5", "set9": "o.a = 9", "inc": "o.a += 1", "dec": "o.a -= 1", "inc3": "o.a += 3",
         # a second instance of the same class (its value starts at 7): the descriptor is shared, the values are not
         "read2": "x = o2.a", "set2_8": "o2.a = 8", "inc2": "o2.a += 1",
         # a second attribute of the same object (starts at 3); an augmented assignment whose right-hand side reads the other
         "readb": "x = o.b", "setb4": "o.b = 4", "incb": "o.b += 1", "mix": "o.a += o.b", "mixb": "o.b += o.a",
         "two": "o.a += 1; o.b += 1"}
_mod = [None]


def statements_module():
    if _mod[0] is None:
        from mc.common import scratch_dir
        d = os.path.join(scratch_dir(), "c27-%d" % os.getpid())
        os.makedirs(d, exist_ok=True)
        src = []
        for k, line in STMTS.items():
            src += ["def s_%s(o, o2):" % k, "  x = None", "  " + line, "  return x", ""]
        path = os.path.join(d, "c27_statements.py")
        open(path, "w").write("\n".join(src))
        spec = importlib.util.spec_from_file_location("c27_statements", path)
        m = importlib.util.module_from_spec(spec)
        spec.loader.exec_module(m)
        _mod[0] = m
    return _mod[0]


INIT = {"a": 0, "b": 3, "a2": 7}


class _Plain:
    pass


def serial_outcomes(threads):
    """reference model: the same source statements run on plain objects in every serial order (threads keep their
    own order).  Returns (set of final (a, b, a2), {variable: values it holds at some point of some serial order})"""
    seqs = set()

    def merge(rest, acc):
        if all(not r for r in rest):
            seqs.add(tuple(acc))
            return
        for i, r in enumerate(rest):
            if r:
                merge([x[1:] if j == i else x for j, x in enumerate(rest)], acc + [r[0]])
    merge([list(t) for t in threads], [])
    finals, holds = set(), {k: {v} for k, v in INIT.items()}
    for seq in seqs:
        o, o2 = _Plain(), _Plain()
        o.a, o.b, o2.a = INIT["a"], INIT["b"], INIT["a2"]
        for st in seq:
            exec(STMTS[st], {"o": o, "o2": o2})
            holds["a"].add(o.a)
            holds["b"].add(o.b)
            holds["a2"].add(o2.a)
        finals.add((o.a, o.b, o2.a))
    return finals, holds


def read_var(st):
    src = STMTS[st]
    return "a2" if "o2.a" in src else ("b" if "o.b" in src else "a")


class Attr:
    name = "c27-attr"
    horizon = 4000
    lock_points = True

    def __init__(self, mode):
        self.mode, self._ready = mode, False

    def setup_process(self):
        if not self._ready:
            aoenv.install()
            statements_module()
            sched.monitor(sched.code_objects_of(tsa.ThreadSafeAttribute), self.mode)
            self._ready = True

    def body(self, s, p):
        m = statements_module()
        aoenv.reset_containers()
        K = tsa.MetaThreadSafeAttributes("K27", (), {"_attributes": ["a", "b"]})   # descriptor locks are created under the stand-ins
        o = K()
        o2 = K()
        o2.a = INIT["a2"]
        o.b = INIT["b"]
        errors = {}
        finished = []
        reads = []
        desc, descb = K.__dict__["a"], K.__dict__["b"]

        def raw(d, inst):
            return inst.__dict__.get(getattr(d, "_key", ""), getattr(d, "_value", None))

        def holder(d):
            return getattr(d._lock, "held_by", lambda: None)()
        s.fingerprint = lambda: (raw(desc, o), raw(descb, o), raw(desc, o2), holder(desc), holder(descb))
        s.open_window()

        def worker(i, stmts):
            for st in stmts:
                try:
                    r = getattr(m, "s_" + st)(o, o2)
                    if st.startswith("read"):
                        reads.append((st, r))
                except Exception as e:  # noqa
                    errors.setdefault(i, []).append("%s in %r: %s" % (type(e).__name__, STMTS[st], e))
            finished.append(i)

        for i, stmts in enumerate(p["threads"]):
            sched.CThread(target=worker, args=(i, stmts), name="w%d" % i).start()
        s.settle()
        held = [h for h in (holder(desc), holder(descb)) if h is not None]
        if not held:
            # nobody holds a lock: ask the attributes themselves what the instances hold now
            final = (m.s_read(o, o2), m.s_readb(o, o2), m.s_read2(o, o2))
        else:
            final = (raw(desc, o), raw(descb, o), raw(desc, o2))
        final = tuple(0 if v is None else v for v in final)
        return {"final": final, "reads": reads, "errors": errors, "finished": sorted(finished),
                "lock_held_by": held[0] if held else None, "holders": [holder(desc), holder(descb)]}

    def on_abort(self, s, p):
        return {"threads": [x for x in s.snapshot if not x[2]]}

    def check(self, p, ex):
        if ex.verdict != "done":
            return [("C27/%s" % ex.verdict, "execution ended with %s: %r" % (ex.verdict, ex.obs))]
        o = ex.obs
        out = []
        if o["errors"]:
            first = sorted(o["errors"].items())[0][1][0]
            out.append(("C27/exception/%s" % first.split(" ")[0], "statements %r: %r" % (p["threads"], o["errors"])))
        if o["finished"] != list(range(len(p["threads"]))):
            ha, hb = o["holders"]
            flat = [st for t in p["threads"] for st in t]
            if ha is not None and hb is not None and ha != hb and "mix" in flat and "mixb" in flat:
                # each thread keeps the lock of the attribute it augments and waits for the other attribute's lock
                return [("C27/thread-stuck/two-attributes-each-augmented-with-the-other",
                         "statements %r: one thread holds the lock of attribute a and waits for b's, the other holds b's and waits "
                         "for a's (holders %r); finished=%r" % (p["threads"], o["holders"], o["finished"]))]
            out.append(("C27/thread-stuck", "statements %r: finished=%r, lock holders %r" % (p["threads"], o["finished"], o["holders"])))
        finals, holds = serial_outcomes(p["threads"])
        if not o["errors"] and tuple(o["final"]) not in finals:
            fa, fb, f2 = o["final"]
            if fa not in {f[0] for f in finals} or fb not in {f[1] for f in finals}:
                out.append(("C27/not-serialisable", "statements %r ended with (a, b)=%r; serial executions give %r" % (
                    p["threads"], (fa, fb), sorted({f[:2] for f in finals}))))
            elif f2 not in {f[2] for f in finals}:
                out.append(("C27/other-instance", "statements %r left the second instance with a=%r; serial executions give %r" % (
                    p["threads"], f2, sorted({f[2] for f in finals}))))
            else:
                out.append(("C27/not-serialisable/jointly", "statements %r ended with (a, b, other a)=%r; serial executions give %r" % (
                    p["threads"], tuple(o["final"]), sorted(finals))))
        for st, r in o["reads"]:
            var = read_var(st)
            if r not in holds[var]:
                out.append(("C27/read-value/%s" % ("other-instance" if var == "a2" else ("same-instance" if var == "a" else "other-attribute")),
                            "statements %r: %r returned %r, the attribute only ever holds %r" % (
                                p["threads"], STMTS[st], r, sorted(holds[var]))))
        if o["lock_held_by"] is not None:
            out.append(("C27/lock-left-held", "after all threads finished the lock is still held by thread %r" % o["lock_held_by"]))
        return out


def params(tier):
    one = ["read", "set5", "inc", "dec"]
    ps = []
    for a, b in itertools.combinations_with_replacement(one, 2):
        if (a, b) == ("read", "read"):
            continue
        ps.append({"threads": [[a], [b]]})
    ps.append({"threads": [["inc", "read"], ["set5", "dec"]]})
    # two instances of one class used from two threads
    ps.append({"threads": [["read"], ["read2"]]})
    ps.append({"threads": [["read", "inc"], ["inc2", "read2"]]})
    ps.append({"threads": [["set5", "read"], ["set2_8", "read2"]]})
    ps.append({"threads": [["inc", "inc"], ["dec", "set9"]]})
    # two attributes of one object: an augmented assignment that reads the other attribute, then other threads use that one
    ps.append({"threads": [["mix"], ["incb"]]})
    ps.append({"threads": [["mix", "readb"], ["setb4"]]})
    ps.append({"threads": [["mix"], ["readb", "incb"]]})
    ps.append({"threads": [["two"], ["incb", "inc"]]})
    ps.append({"threads": [["mix"], ["mix"]]})
    ps.append({"threads": [["mix"], ["mixb"]]})
    if tier != "quick":
        ps.append({"threads": [["inc"], ["dec"], ["inc3"]]})
        ps.append({"threads": [["inc"], ["set5"], ["read"]]})
        ps.append({"threads": [["inc", "dec"], ["inc3", "set5"]], "bound": 3})
    return ps


def run(tier):
    res = Result(PID)
    q = tier == "quick"
    bound = 2
    st = explore.explore(Attr("line" if q else "instr"), params(tier), bound)
    fill(res, st, bound, "line" if q else "instruction")
    res.assumptions = ["'o.a = o.a + 1' is a read plus an assignment, not an augmented assignment: excluded from the alphabet",
                       "the descriptor's lock is created under the controlled RLock stand-in (conformance-checked)"]
    return res


def replay(w):
    res = Result(PID)
    ex, v = explore.replay(Attr("line"), w)
    print(ex.verdict, ex.obs)
    for key, what in v:
        res.add(Violation(key, what, w))
    return res
