"""C27 - thread-safe attributes lose no updates and never fail under
concurrency.  2-3 threads x 1-2 statements from {x = o.a, o.a = v, o.a += 1,
o.a -= 1} (statements live in a generated source file: the descriptor reads
the caller's source line); every schedule to the preemption bound with
scheduling points at every lock operation and every line (quick) /
shared-access instruction (thorough) of the descriptor."""
import os, tempfile, shutil, importlib.util, itertools, atexit
from mc.common import Result, Violation, ToolingError
from mc import sched, aoenv, explore
from mc.props.c05 import fill
import miros.thread_safe_attributes as tsa

PID = "C27"
STMTS = {"read": "x = o.a", "set5": "o.a = 5", "set9": "o.a = 9", "inc": "o.a += 1", "dec": "o.a -= 1", "inc3": "o.a += 3",
         # a second instance of the same class (its value starts at 7): the descriptor is shared, the values are not
         "read2": "x = o2.a", "set2_8": "o2.a = 8", "inc2": "o2.a += 1"}
_mod = [None]


def statements_module():
    if _mod[0] is None:
        from mc.common import scratch_dir
        d = os.path.join(scratch_dir(), "c27-%d" % os.getpid())
        os.makedirs(d, exist_ok=True)
        src = []
        for k, line in STMTS.items():
            src += ["def s_%s(o, o2):" % k, "  x = None", "  " + line, "  return x", ""]
        path = os.path.join(d, "c27_statements.py")
        open(path, "w").write("\n".join(src))
        spec = importlib.util.spec_from_file_location("c27_statements", path)
        m = importlib.util.module_from_spec(spec)
        spec.loader.exec_module(m)
        _mod[0] = m
    return _mod[0]


def serial_results(threads, init=0, which=1, reads=None):
    """final values of all serial orders of the statements on instance `which` (threads keep their own order); if
    `reads` is a set, every value the instance holds at some point of some serial order is added to it"""
    threads = [[st for st in t if (("2" in st.split("_")[0][-1:]) == (which == 2))] for t in threads]
    seqs = set()

    def merge(rest, acc):
        if all(not r for r in rest):
            seqs.add(tuple(acc))
            return
        for i, r in enumerate(rest):
            if r:
                merge([x[1:] if j == i else x for j, x in enumerate(rest)], acc + [r[0]])
    merge([list(t) for t in threads], [])
    out = set()
    for s in seqs:
        v = init
        if reads is not None:
            reads.add(v)
        for st in s:
            if st.startswith("set"):
                v = int(st.split("_")[1]) if "_" in st else int(st[3:])
            elif st in ("inc", "inc2"):
                v += 1
            elif st == "dec":
                v -= 1
            elif st == "inc3":
                v += 3
            if reads is not None:
                reads.add(v)
        out.add(v)
    return out


class Attr:
    name = "c27-attr"
    horizon = 4000
    lock_points = True

    def __init__(self, mode):
        self.mode, self._ready = mode, False

    def setup_process(self):
        if not self._ready:
            aoenv.install()
            statements_module()
            sched.monitor(sched.code_objects_of(tsa.ThreadSafeAttribute), self.mode)
            self._ready = True

    def body(self, s, p):
        m = statements_module()
        K = tsa.MetaThreadSafeAttributes("K27", (), {"_attributes": ["a"]})   # descriptor lock is created under the stand-ins
        o = K()
        o2 = K()
        o2.a = 7
        errors = {}
        finished = []
        reads = []
        desc = K.__dict__["a"]
        s.fingerprint = lambda: (o.__dict__.get(getattr(desc, "_key", ""), getattr(desc, "_value", None)),
                                 getattr(desc._lock, "held_by", lambda: None)())
        s.open_window()

        def worker(i, stmts):
            for st in stmts:
                try:
                    r = getattr(m, "s_" + st)(o, o2)
                    if st.startswith("read"):
                        reads.append((st, r))
                except Exception as e:  # noqa
                    errors.setdefault(i, []).append("%s in %r: %s" % (type(e).__name__, STMTS[st], e))
            finished.append(i)

        for i, stmts in enumerate(p["threads"]):
            sched.CThread(target=worker, args=(i, stmts), name="w%d" % i).start()
        s.settle()
        lock = desc._lock
        held = lock.held_by() if hasattr(lock, "held_by") else None
        if held is None:
            # nobody holds the lock: ask the attribute itself what the instances hold now
            final, final2r = m.s_read(o, o2), m.s_read2(o, o2)
        else:
            final = o.__dict__.get(getattr(desc, "_key", ""), getattr(desc, "_value", None))
            final2r = None
        if final is None:
            final = 0
        final2 = final2r if final2r is not None else o2.__dict__.get(getattr(desc, "_key", ""), getattr(desc, "_value", None))
        return {"final": final, "final2": final2, "reads": reads, "errors": errors, "finished": sorted(finished), "lock_held_by": held}

    def on_abort(self, s, p):
        return {"threads": [x for x in s.snapshot if not x[2]]}

    def check(self, p, ex):
        if ex.verdict != "done":
            return [("C27/%s" % ex.verdict, "execution ended with %s: %r" % (ex.verdict, ex.obs))]
        o = ex.obs
        out = []
        if o["errors"]:
            first = sorted(o["errors"].items())[0][1][0]
            out.append(("C27/exception/%s" % first.split(" ")[0], "statements %r: %r" % (p["threads"], o["errors"])))
        if o["finished"] != list(range(len(p["threads"]))):
            out.append(("C27/thread-stuck", "finished=%r" % (o["finished"],)))
        ok = serial_results(p["threads"])
        if not o["errors"] and o["final"] not in ok:
            out.append(("C27/not-serialisable", "statements %r ended with a=%r; serial executions give %r" % (p["threads"], o["final"], sorted(ok))))
        ok2 = serial_results(p["threads"], init=7, which=2)
        if not o["errors"] and o["final2"] not in ok2:
            out.append(("C27/other-instance", "statements %r left the second instance with a=%r; serial executions give %r" % (
                p["threads"], o["final2"], sorted(ok2))))
        poss1, poss2 = set(), set()
        serial_results(p["threads"], reads=poss1)
        serial_results(p["threads"], init=7, which=2, reads=poss2)
        for st, r in o["reads"]:
            if r not in (poss2 if st == "read2" else poss1):
                out.append(("C27/read-value/%s" % ("other-instance" if st == "read2" else "same-instance"),
                            "statements %r: %r returned %r, the instance only ever holds %r" % (
                                p["threads"], STMTS[st], r, sorted(poss2 if st == "read2" else poss1))))
        if o["lock_held_by"] is not None:
            out.append(("C27/lock-left-held", "after all threads finished the lock is still held by thread %r" % o["lock_held_by"]))
        return out


def params(tier):
    one = ["read", "set5", "inc", "dec"]
    ps = []
    for a, b in itertools.combinations_with_replacement(one, 2):
        if (a, b) == ("read", "read"):
            continue
        ps.append({"threads": [[a], [b]]})
    ps.append({"threads": [["inc", "read"], ["set5", "dec"]]})
    # two instances of one class used from two threads
    ps.append({"threads": [["read"], ["read2"]]})
    ps.append({"threads": [["read", "inc"], ["inc2", "read2"]]})
    ps.append({"threads": [["set5", "read"], ["set2_8", "read2"]]})
    ps.append({"threads": [["inc", "inc"], ["dec", "set9"]]})
    if tier != "quick":
        ps.append({"threads": [["inc"], ["dec"], ["inc3"]]})
        ps.append({"threads": [["inc"], ["set5"], ["read"]]})
        ps.append({"threads": [["inc", "dec"], ["inc3", "set5"]], "bound": 3})
    return ps


def run(tier):
    res = Result(PID)
    q = tier == "quick"
    bound = 2
    st = explore.explore(Attr("line" if q else "instr"), params(tier), bound)
    fill(res, st, bound, "line" if q else "instruction")
    res.assumptions = ["'o.a = o.a + 1' is a read plus an assignment, not an augmented assignment: excluded from the alphabet",
                       "the descriptor's lock is created under the controlled RLock stand-in (conformance-checked)"]
    return res


def replay(w):
    res = Result(PID)
    ex, v = explore.replay(Attr("line"), w)
    print(ex.verdict, ex.obs)
    for key, what in v:
        res.add(Violation(key, what, w))
    return res
