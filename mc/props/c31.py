"""C31 - a rejected timed post never fires.  An ActiveObject subclass with room
for 2 timed sources; the third timed post must raise, its event must never be
posted, the two tracked sources keep their schedule.  Every schedule of the
caller vs the new timer thread to the deviation bound."""
import itertools
from mc.common import Result, Violation
from mc import explore, timed, aoharness as H
from mc.props.c05 import fill
import miros.activeobject as ao_mod

PID = "C31"


class SmallAO(ao_mod.ActiveObject):
    QUEUE_SIZE = 2      # posted_events_queue capacity (read from the class at construction and at the check)


class C31(timed.TimedHarness):
    name = "c31"

    def make_ao(self, s, p):
        return H.new_ao("ao", H.make_state(), klass=SmallAO)

    def check(self, p, ex):
        if ex.verdict == "time-horizon":
            return []       # the harness's own scripted sleep slipped past the time horizon under clock deviations: nothing observed
        if ex.verdict != "done":
            return [("C31/%s" % ex.verdict, "execution ended with %s: %r" % (ex.verdict, ex.obs))]
        o = ex.obs
        out = []
        if o["thread_exceptions"]:
            out.append(("C31/exception", "%r" % (o["thread_exceptions"],)))
        if o["raised"] != [2]:
            out.append(("C31/no-exception", "third timed post did not raise ActiveObjectOutOfPostedEventResources (raised for %r)" % (o["raised"],)))
        lab = "%s/s2" % p["sources"][2]["sig"]
        fired = [(st, now) for (st, now, op, l) in o["appends"] if l == lab]
        if fired:
            out.append(("C31/rejected-source-fired/deferred=%s" % p["sources"][2]["deferred"],
                        "the rejected source posted its event at (step, time) %r" % (fired,)))
        out += timed.schedule_violations(PID, p, o, rejected=[2])
        if len(o["tracked"]) != 2:
            out.append(("C31/tracked", "tracked sources: %r" % (o["tracked"],)))
        return out


def params(tier):
    ps = []
    base = [{"sig": "A", "period": 1.0, "times": 1, "deferred": True, "kind": "fifo"},
            {"sig": "B", "period": 0.5, "times": 0, "deferred": True, "kind": "lifo"}]
    for deferred, kind, times in itertools.product((True, False), ("fifo", "lifo"), (1, 0)):
        third = {"sig": "C", "period": 0.5, "times": times, "deferred": deferred, "kind": kind}
        q = tier == "quick"
        ps.append({"sources": base + [third], "bound": 1 if q else 2, "time_horizon": 0.5 if q else 1.0})
    # the list is full but one of its entries is a one-shot that has already fired (miros keeps finished sources listed
    # until they are cancelled): the object still tracks its maximum, a further timed post is refused
    for deferred in (True, False):
        third = {"sig": "C", "period": 0.5, "times": 1, "deferred": deferred, "kind": "fifo", "at": 1.25}
        ps.append({"sources": base + [third], "bound": 0 if q else 1, "time_horizon": 2.0})
    return ps


def racer_params(tier):
    """the third post races a cancel call of another thread that matches none of the tracked sources"""
    ps = []
    for p in params(tier):
        third = p["sources"][2]
        if third["kind"] != "fifo" or third["times"] != 1:
            continue
        for op in ("cancel_unknown", "cancel_unused"):
            ps.append(dict(p, racer={"before": 2, "op": op}))
    return ps


RACER_CODES = timed.CODES + ["ActiveObject.__", "ActiveObject.cancel"]


def run(tier):
    res = Result(PID)
    st = explore.explore(C31("line"), params(tier), 2)
    st.merge(explore.explore(C31("line", codes=RACER_CODES), racer_params(tier), 2))
    ix = None
    if tier != "quick":
        ix = explore.extra(st, explore.hybrid(C31("instr")), [dict(p, bound=2.015, time_horizon=0.5) for p in params(tier)[:4]], 2.015, 900,
                           "first 4 parameter sets at instruction granularity (at most one deviation inside a line)")
    fill(res, st, 2, "line", "; capacity 2 tracked sources, third source deferred or not, fifo/lifo, one-shot/periodic; the third post "
         "also while another thread makes a cancel_event / cancel_events call that matches nothing")
    if ix:
        res.coverage["instruction_extra"] = ix
    res.assumptions = ["capacity reduced through a subclass attribute (QUEUE_SIZE = 2), the documented extension point"]
    return res


def replay(w):
    res = Result(PID)
    ex, v = explore.replay(C31("line"), w)
    print(ex.verdict, ex.obs)
    for key, what in v:
        res.add(Violation(key, what, w))
    return res
