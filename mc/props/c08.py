"""C08 - the fabric delivers by priority (smaller number first) and events of
equal priority in publish order, however far the delivery threads lag.

(a) every publish sequence (length <= N over priorities {1, 2, default} x 2
    signals) with the delivery threads lagging completely (everything is
    published before either thread runs: published before start(), and
    published to a started fabric whose threads have not been scheduled yet);
(b) one or two publishers racing the delivery threads, every schedule to the
    preemption bound: the put/get log of each fabric queue is replayed on a
    stable priority queue."""
import itertools
from mc.common import Result, Violation, ToolingError, pmap, ncpu
from mc import sched, aoenv, explore, fabric, aoharness as H
from mc.props.c05 import fill
from miros.event import Event
import miros.activeobject as ao

PID = "C08"
PRIOS = (1, 2, None)
SIGS = ("A", "B")


def prio_of(p):
    return 1000 if p is None else p


class LogPQ(sched.CPriorityQueue):
    """the controlled PriorityQueue stand-in + a log of puts and gets (who, when, what)"""
    tag = "?"

    def put(self, item, block=True, timeout=None):
        r = sched.CPriorityQueue.put(self, item, block, timeout)
        s = sched.ACTIVE
        ev = getattr(item, "event", None)
        s.note("pq", self.tag, "put", H.label_of(ev), getattr(item, "priority", None))
        return r

    def get(self, block=True, timeout=None):
        item = sched.CPriorityQueue.get(self, block, timeout)
        s = sched.ACTIVE
        ev = getattr(item, "event", None)
        s.note("pq", self.tag, "get", H.label_of(ev), getattr(item, "priority", None))
        return item


def logged_fabric():
    fab = ao.ActiveFabric()
    for tag in ("fifo", "lifo"):
        q = LogPQ()
        q.tag = tag
        setattr(fab, "%s_fabric_queue" % tag, q)
    return fab


def pq_log(s, tag):
    return [(x[0], x[5], x[6], x[7]) for x in s.log if x[3] == "pq" and x[4] == tag]


def order_violations(log, calls, tag):
    """replay a put/get log on a stable priority queue.  calls: label -> (inv, ret) of the publish call.
    At every get the item must have the smallest priority number among the queued ones and no queued item of the
    same priority may have been published (call returned) before this one's publish call was invoked."""
    queued = []
    out = []
    for (step, op, lab, prio) in log:
        if lab is None or lab.startswith("STOP_FABRIC"):
            continue
        if op == "put":
            queued.append((lab, prio))
        else:
            if (lab, prio) not in queued:
                out.append(("%s/%s/got-unqueued" % (PID, tag), "get returned %r which was not queued: %r" % (lab, queued)))
                continue
            best = min(p for (_, p) in queued)
            if prio != best:
                out.append(("%s/priority-order" % PID, "%s queue: get returned %r (priority %s) while %r were waiting" % (
                    tag, lab, prio, queued)))
            else:
                earlier = [l for (l, p) in queued if p == prio and l != lab and
                           l in calls and lab in calls and calls[l][1] < calls[lab][0]]
                if earlier:
                    out.append(("%s/equal-priority-order" % PID, "%s queue: get returned %r although %r of the same priority %s had been "
                                "published before it; waiting: %r" % (tag, lab, earlier, prio, queued)))
            queued.remove((lab, prio))
    return out


class Lag(fabric.SeqHarness):
    """total lag: every publication is made before a delivery thread runs"""
    name = "c08-lag"

    def body(self, s, p):
        aoenv.reset()
        fab = logged_fabric()
        qs = fabric.make_queues()
        fab.subscribe(qs[0], Event(signal="A"))
        fab.subscribe(qs[0], Event(signal="B"))
        fab.subscribe(qs[1], Event(signal="A"), queue_type="lifo")
        fab.subscribe(qs[2], Event(signal="B"), queue_type="lifo")
        fab.subscribe(qs[2], Event(signal="A"), queue_type="lifo")
        if p["mode"] == "started":
            fab.start()
            s.settle()
        calls = {}
        split = len(p["pubs"]) // 2 if p["mode"] == "around-start" else None
        for k, (sig, prio) in enumerate(p["pubs"]):
            if k == split:
                fab.start()         # the delivery threads are made but do not run before the publisher blocks
            lab = "%s/e%d" % (sig, k)
            a = s.steps
            if prio is None:
                fab.publish(Event(signal=sig, payload="e%d" % k))
            else:
                fab.publish(Event(signal=sig, payload="e%d" % k), priority=prio)
            calls[lab] = (a, s.steps)
            s.point("between-publications")
        if p["mode"] == "before-start":
            fab.start()
        s.settle()
        return {"contents": [fabric.contents(q) for q in qs], "calls": calls,
                "log": {t: pq_log(s, t) for t in ("fifo", "lifo")},
                "thread_exceptions": [x[:3] for x in s.thread_exceptions]}


def lag_judge(p, ex):
    if ex.verdict != "done":
        return [("%s/lag/%s" % (PID, ex.verdict), "ended with %s: %r" % (ex.verdict, ex.obs))]
    o = ex.obs
    out = []
    if o["thread_exceptions"]:
        out.append(("%s/exception" % PID, "%r" % (o["thread_exceptions"],)))
    pubs = [("%s/e%d" % (sig, k), sig, prio_of(pr), k) for k, (sig, pr) in enumerate(p["pubs"])]
    stable = [x[0] for x in sorted(pubs, key=lambda x: (x[2], x[3]))]
    want = [stable,                                         # deque0: A and B, fifo
            [l for l in stable if l.startswith("A/")],      # deque1: A, lifo kind
            stable]                                         # locking: A and B, lifo kind
    for qi in range(3):
        got = o["contents"][qi]
        if qi == 2:
            # a lifo delivery into a LockingDeque (an active object's queue) goes to the front (C09): the order of
            # arrival is the reverse of the contents
            got = list(reversed(got))
        if got != want[qi]:
            if sorted(got) != sorted(want[qi]):
                key = "%s/lag/lost-or-extra" % PID
            else:
                # which clause: priority inversion or tie order
                pr = {x[0]: x[2] for x in pubs}
                inv = any(pr[a] > pr[b] for a, b in zip(got, got[1:]))
                key = "%s/%s" % (PID, "priority-order" if inv else "equal-priority-order")
            out.append((key, "publications %r (all made before a delivery thread ran, mode %s) reached subscriber %d in the order %r, "
                        "expected %r" % (p["pubs"], p["mode"], qi, got, want[qi])))
    calls = {k: tuple(v) for k, v in o["calls"].items()}
    for t in ("fifo", "lifo"):
        out += order_violations(o["log"][t], calls, t)
    return out


def lag_work(ps):
    h = Lag()
    h.setup_process()
    out = []
    for p in ps:
        ex = explore.run_execution(h, p, ())
        out.append((p, lag_judge(p, ex), ex.obs.get("contents") if isinstance(ex.obs, dict) else None))
    return out


class Race:
    name = "c08-race"
    horizon = 6000
    lock_points = False
    fair_k = 80

    def __init__(self, mode="line"):
        self.mode, self._ready = mode, False

    def setup_process(self):
        if not self._ready:
            aoenv.install()
            sched.monitor(fabric.fabric_codes(), self.mode)
            self._ready = True

    def body(self, s, p):
        aoenv.reset()
        fab = logged_fabric()
        qs = fabric.make_queues()
        fab.subscribe(qs[0], Event(signal="A"))
        fab.subscribe(qs[0], Event(signal="B"))
        fab.subscribe(qs[2], Event(signal="A"), queue_type="lifo")
        fab.start()
        s.settle()
        calls = {}
        s.open_window()

        def publisher(i, pubs):
            for k, (sig, prio) in enumerate(pubs):
                lab = "%s/t%d.%d" % (sig, i, k)
                a = s.steps
                if prio is None:
                    fab.publish(Event(signal=sig, payload="t%d.%d" % (i, k)))
                else:
                    fab.publish(Event(signal=sig, payload="t%d.%d" % (i, k)), priority=prio)
                calls[lab] = (a, s.steps)

        for i, pubs in enumerate(p["threads"]):
            sched.CThread(target=publisher, args=(i, pubs), name="pub%d" % i).start()
        s.settle()
        return {"contents": [fabric.contents(q) for q in qs], "calls": calls,
                "log": {t: pq_log(s, t) for t in ("fifo", "lifo")},
                "thread_exceptions": [x[:3] for x in s.thread_exceptions]}

    def on_abort(self, s, p):
        return {"threads": [x for x in s.snapshot if not x[2]][:8]}

    def check(self, p, ex):
        if ex.verdict != "done":
            return [("%s/race/%s" % (PID, ex.verdict), "ended with %s: %r" % (ex.verdict, ex.obs))]
        o = ex.obs
        out = []
        if o["thread_exceptions"]:
            out.append(("%s/exception" % PID, "%r" % (o["thread_exceptions"],)))
        calls = {k: tuple(v) for k, v in o["calls"].items()}
        n = sum(len(t) for t in p["threads"])
        if len(calls) != n:
            out.append(("%s/race/publish-did-not-return" % PID, "%r" % (calls,)))
        for t in ("fifo", "lifo"):
            out += order_violations(o["log"][t], calls, t)
        # what reaches a subscriber is what its delivery thread took, in that order
        gets = [lab for (_, op, lab, _) in o["log"]["fifo"] if op == "get" and lab and not lab.startswith("STOP")]
        if o["contents"][0] != gets:
            out.append(("%s/race/subscriber-order" % PID, "fifo delivery thread took %r, subscriber holds %r" % (gets, o["contents"][0])))
        if sorted(gets) != sorted(calls):
            out.append(("%s/race/lost-or-extra" % PID, "published %r delivered %r" % (sorted(calls), gets)))
        return out


def race_params(tier):
    q = tier == "quick"
    ps = [{"threads": [[("A", None), ("A", None), ("A", None)]]},
          {"threads": [[("A", 2), ("B", 1), ("A", 2), ("B", 2)]], "bound": 1 if q else 2},
          {"threads": [[("A", None), ("A", None)], [("B", None), ("A", 1)]], "bound": 1 if q else 2}]
    if not q:
        ps.append({"threads": [[("A", None)] * 5]})
        ps.append({"threads": [[("A", 1), ("B", 1), ("A", 1)], [("B", 1), ("A", 1)]], "bound": 2})
    return ps


def run(tier):
    res = Result(PID)
    q = tier == "quick"
    N = 4 if q else 5
    alpha = [(sig, pr) for sig in SIGS for pr in PRIOS]
    ps = []
    for n in range(1, N + 1):
        for seq in itertools.product(alpha, repeat=n):
            for mode in ("before-start", "started") + (("around-start",) if n >= 2 else ()):
                ps.append({"pubs": list(seq), "mode": mode})
    # a long backlog (9-14 waiting events): equal priorities, alternating and blocks
    for n in (9, 12, 14):
        for pat in ([None] * n, [1, None] * (n // 2) + [None] * (n % 2), [2] * (n // 2) + [1] * (n - n // 2),
                    [None, None, 1] * (n // 3) + [None] * (n % 3)):
            for mode in ("started", "before-start"):
                ps.append({"pubs": [("A" if k % 3 else "B", pr) for k, pr in enumerate(pat)], "mode": mode})
    if not q:       # longer runs of equal priorities (heap shapes beyond 5 entries), one signal
        for n in (6, 7, 8):
            for seq in itertools.product((None, 1), repeat=n):
                ps.append({"pubs": [("A", pr) for pr in seq], "mode": "started"})
    jobs = ncpu()
    chunks = [ps[i::jobs * 4] for i in range(jobs * 4)]
    outs = pmap(lag_work, [c for c in chunks if c], jobs)
    n_lag = 0
    distinct = set()
    sample = None
    for part in outs:
        for p, v, cont in part:
            n_lag += 1
            distinct.add(repr(cont))
            for key, what in v:
                if sum(1 for x in res.violations if x.key == key) < 2:
                    res.add(Violation(key, what, {"lag": p}))
            if sample is None and len(p["pubs"]) == N:
                sample = {"lag": p, "delivered": cont}
    bound = 2
    st = explore.explore(Race("line"), race_params(tier), bound)
    rst = explore.explore(fabric.Restart(PID, "line"), fabric.restart_params(tier), 2)
    st.merge(rst)
    restart_cov = {"executions": rst.executions, "distinct_outcomes": len(rst.outcomes), "verdicts": rst.verdicts,
                   "what": "1-4 publications (priority 1 / default) made while the fabric runs, then stop(), optional publications while "
                           "stopped, start(); every schedule of the caller against the delivery threads with <= 1-2 preemptions"}
    ix = None
    if tier != "quick":
        ix = explore.extra(st, explore.hybrid(Race("instr")), [dict(p, bound=2.015) for p in race_params(tier)[:3]],
                           2.015, 900, "publisher races at instruction granularity, two preemptions of which at most one inside a source line")
    fill(res, st, bound, "line")
    if ix:
        res.coverage["instruction_extra"] = ix
    cov = res.coverage
    cov["restart_part"] = restart_cov
    cov["lag_part"] = {"publish_sequences": n_lag, "max_length": N, "distinct_delivery_patterns": len(distinct)}
    cov["states"] = len(distinct) + max(1, len(st.fps))
    cov["transitions"] = n_lag + st.steps
    cov["evaluations"] = n_lag + st.executions
    cov["traces_validated_against_impl"] = cov["evaluations"]
    cov["distinct_nontrivial"] = n_lag + st.nontrivial
    cov["samples"] = [sample] + cov.get("samples", [])
    cov["rule"] = ("(a) every publish sequence of length <= %d over priorities {1, 2, default} x signals {A, B}, published before "
                   "start() and to a started fabric whose threads have not run yet (total lag), 3 subscribers: subscriber contents "
                   "must equal the stable sort by priority; (b) %s; the put/get log of both fabric queues is replayed on a stable "
                   "priority queue" % (N, cov["rule"]))
    if len(st.outcomes) < 2 and not res.violations:
        raise ToolingError("race harness did not collide")
    res.assumptions = ["publish order of two overlapping publish calls from different threads is either order",
                       "priorities {1, 2, default 1000}"]
    return res


def replay(w):
    res = Result(PID)
    if "lag" in w:
        h = Lag()
        h.setup_process()
        ex = explore.run_execution(h, w["lag"], ())
        print(ex.verdict, ex.obs)
        for key, what in lag_judge(w["lag"], ex):
            res.add(Violation(key, what, w))
        return res
    ex, v = explore.replay(fabric.Restart(PID, "line") if str(w.get("harness", "")).endswith("-restart") else Race("line"), w)
    print(ex.verdict, ex.obs)
    for key, what in v:
        res.add(Violation(key, what, w))
    return res
