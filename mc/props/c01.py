"""C01 - transitions run exits, entries and initial transitions in UML order.

Exhaustive single-step scenarios (forest, current c, answering S on path(c),
target T, chain of initial transitions below T) on every host, compared with
the reference model; plus the same step taken a second time from the reached
configuration (start-from-non-initial-state differential)."""
import random
from mc.common import Result, seed
from mc import forests as F
from mc.hsmcheck import sweep, VARIANTS_ALL, mixed_style, replay_generic

PID = "C01"


def gen(parent):
    n = len(parent)
    for c in range(n):
        for S in F.path(parent, c):
            for Tt in range(n):
                for chain in F.chains(parent, Tt):
                    if c in chain[:-1]:
                        continue
                    init = {chain[i]: chain[i + 1] for i in range(len(chain) - 1)}
                    yield ({"parent": parent, "init": init, "react": {(S, "A"): ("T", Tt)},
                            "start": c, "events": ["A", "A"]},
                           len(chain) > 1 or parent[Tt] >= 0)


def run(tier):
    res = Result(PID)
    N, nh, maxd = (8, 6, 11) if tier == "quick" else (9, 7, 14)
    rnd = random.Random(seed())
    allf = [f for n in range(1, N + 1) for f in F.forests(n)]
    rnd.shuffle(allf)
    small = [f for f in allf if len(f) <= nh]
    spine_f = [f for d in range(9, maxd + 1) for f in F.spines(d, 0)]
    if tier != "quick":
        spine_f += [f for d in range(9, 12) for f in F.spines(d, 1)]
    sweep(res, [(gen, allf, VARIANTS_ALL[:1], [None]),
                (gen, small, VARIANTS_ALL[1:], [None]),
                (gen, small, VARIANTS_ALL[:2], [mixed_style]),
                (gen, spine_f, VARIANTS_ALL[:1], [None])])
    res.coverage.update({
        "rule": "every (forest shape<=%d states, current c, answering S on path(c), target T, init chain below T), "
                "two consecutive steps each, x hosts; non-trivial = target nested or init chain non-empty; "
                "plus spine charts of depth 9..%d" % (N, maxd),
        "bounds": {"forest_states_plain_host": N, "forest_states_other_hosts": nh, "spine_depth": maxd},
        "exhaustive": True})
    res.assumptions = ["processor is memoryless between steps (checked: temp.fun is state.fun after every step)",
                       "sibling order/naming irrelevant: processor follows parent links only"]
    return res


def replay(witness):
    return replay_generic(PID, witness)
