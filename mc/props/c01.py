"""C01 - transitions run exits, entries and initial transitions in UML order.

Exhaustive single-step scenarios (forest, current c, answering S on path(c),
target T, chain of initial transitions below T) on every host, compared with
the reference model; plus the same step taken a second time from the reached
configuration (start-from-non-initial-state differential)."""
import random
from mc.common import Result, seed
from mc import forests as F
from mc.hsmcheck import sweep, VARIANTS_ALL, mixed_style, replay_generic

SAME_NAME = [("plain", "plain_same_name"), ("instrumented", "spied_same_name")]
PID = "C01"


def gen(parent):
    n = len(parent)
    for c in range(n):
        for S in F.path(parent, c):
            for Tt in range(n):
                for chain in F.chains(parent, Tt):
                    if c in chain[:-1]:
                        continue
                    init = {chain[i]: chain[i + 1] for i in range(len(chain) - 1)}
                    yield ({"parent": parent, "init": init, "react": {(S, "A"): ("T", Tt)},
                            "start": c, "events": ["A", "A"]},
                           len(chain) > 1 or parent[Tt] >= 0)


def _nested_work(parents):
    """a transition of one chart during which an entry / exit action dispatches an event to ANOTHER chart (its own processor
    object) that makes a transition of its own - the orthogonal-component idiom.  Differential oracle: both charts must log
    and rest exactly as they do when run alone (the solo runs are what the main sweep compares with the reference model)."""
    from mc import charts, refmodel
    from mc.charts import Table, use, new_host, ENTRY, EXIT, FAMILIES, ev
    from mc.common import BudgetExceeded
    n_runs = 0
    viol = []
    p2 = (-1, 0, 1, 2)
    react2 = {(0, "A"): ("T", 3)}

    for parent in parents:
        for base, nontrivial in gen(parent):
            if not nontrivial:
                continue
            S_, Tt = [(k[0], v[1]) for k, v in base["react"].items()][0]
            log_ref, _rest = refmodel.transition(parent, base["init"], base["start"], S_, Tt)
            touched = sorted({(x[0], x[1]) for x in log_ref if x[0] in ("entry", "exit")})
            react1 = {(s_, charts.SIG[g]): v for (s_, g), v in base["react"].items()}
            for host, fam in VARIANTS_ALL:
                kw = {"instrumented": False} if (host == "queued" and fam == "plain") or host == "queued_off" else {}
                # chart 1 alone
                ts = Table(parent, init=base["init"], react=react1)
                use(ts, fam)
                hs = new_host(host, **kw)
                try:
                    hs.start_at(ts.S[base["start"]])
                    for g in base["events"]:
                        hs.dispatch(ev(g))
                    alone = ([x for x in ts.log if x[0] != "empty"], charts.config_of(hs))
                except (Exception, BudgetExceeded):  # noqa
                    continue        # (the main sweep reports it)
                for kind, k in touched:
                    n_runs += 1
                    calls = []
                    t2 = Table(p2, react={(s_, charts.SIG[g]): v for (s_, g), v in react2.items()})
                    t2.S = FAMILIES[fam]
                    h2 = new_host(host, **kw)
                    h2.mc_table = t2
                    bad = None
                    try:
                        h2.start_at(t2.S[0])

                        def poke(chart, h2=h2, calls=calls):
                            calls.append(1)
                            h2.dispatch(ev("A"))
                        t1 = Table(parent, init=base["init"], react=react1, act={(k, ENTRY if kind == "entry" else EXIT): [("call", poke)]})
                        use(t1, fam)
                        h1 = new_host(host, **kw)
                        t2.log[:] = []
                        h1.start_at(t1.S[base["start"]])
                        for g in base["events"]:
                            h1.dispatch(ev(g))
                        got1 = ([x for x in t1.log if x[0] != "empty"], charts.config_of(h1))
                        got2 = [x for x in t2.log if x[0] != "empty"]
                        # chart 2 alone, poked the same number of times
                        t3 = Table(p2, react={(s_, charts.SIG[g]): v for (s_, g), v in react2.items()})
                        t3.S = FAMILIES[fam]
                        h3 = new_host(host, **kw)
                        h3.mc_table = t3
                        h3.start_at(t3.S[0])
                        t3.log[:] = []
                        for _ in calls:
                            h3.dispatch(ev("A"))
                        want2 = [x for x in t3.log if x[0] != "empty"]
                        if got1 != alone:
                            bad = ("outer", "the chart whose %s action of state %d dispatches to another chart logged %r and rests in %r; alone it "
                                   "logs %r and rests in %r" % (kind, k, got1[0], got1[1], alone[0], alone[1]))
                        elif got2 != want2:
                            bad = ("inner", "the chart dispatched to from the %s action logged %r; alone (%d dispatches) %r" % (kind, got2, len(calls), want2))
                    except (Exception, BudgetExceeded) as e:  # noqa
                        bad = ("exception", "%s: %s" % (type(e).__name__, e))
                    if bad:
                        key = "C01/nested-dispatch/%s" % bad[0]
                        if sum(1 for v in viol if v[0] == key) < 2:
                            viol.append((key, "%r/init %r, start %d, react %r on host %s/%s: %s" % (
                                parent, base["init"], base["start"], base["react"], host, fam, bad[1]),
                                {"nested": True, "parent": list(parent)}))
    return n_runs, viol


def nested_part(res, tier):
    from mc.common import pmap, ncpu, Violation
    N = 4 if tier == "quick" else 5
    fl = [f for n in range(2, N + 1) for f in F.forests(n)]
    chunks = [fl[i::ncpu() * 2] for i in range(ncpu() * 2)]
    n = 0
    for runs, viol in pmap(_nested_work, [c for c in chunks if c], ncpu()):
        n += runs
        for key, what, w in viol:
            if sum(1 for x in res.violations if x.key == key) < 2:
                res.add(Violation(key, what, w))
    res.coverage["nested_dispatch_part"] = {"runs": n, "forests_upto": N,
                                            "rule": "every non-trivial C01 scenario on forests<=%d x every state exited or entered by the transition x 5 "
                                                    "hosts: that state's exit / entry action dispatches an event to a second chart (another processor "
                                                    "object) which makes a transition with a three-state entry path; both charts must log and rest "
                                                    "as they do alone" % N}
    res.coverage["evaluations"] = res.coverage.get("evaluations", 0) + n
    res.coverage["traces_validated_against_impl"] = res.coverage["evaluations"]


def run(tier):
    res = Result(PID)
    N, nh, maxd = (8, 6, 11) if tier == "quick" else (9, 7, 14)
    rnd = random.Random(seed())
    allf = [f for n in range(1, N + 1) for f in F.forests(n)]
    rnd.shuffle(allf)
    small = [f for f in allf if len(f) <= nh]
    spine_f = [f for d in range(9, maxd + 1) for f in F.spines(d, 0)]
    if tier != "quick":
        spine_f += [f for d in range(9, 12) for f in F.spines(d, 1)]
    sweep(res, [(gen, allf, VARIANTS_ALL[:1], [None]),
                (gen, small, VARIANTS_ALL[1:], [None]),
                (gen, small, VARIANTS_ALL[:2], [mixed_style]),
                (gen, spine_f, VARIANTS_ALL[:1], [None]),
                # every state function carries the same __name__ (distinct functions): states are known by identity
                (gen, [f for f in allf if len(f) <= (5 if tier == "quick" else 6)], SAME_NAME, [None])])
    nested_part(res, tier)
    res.coverage.update({
        "rule": "every (forest shape<=%d states, current c, answering S on path(c), target T, init chain below T), "
                "two consecutive steps each, x hosts; non-trivial = target nested or init chain non-empty; "
                "plus spine charts of depth 9..%d" % (N, maxd),
        "bounds": {"forest_states_plain_host": N, "forest_states_other_hosts": nh, "spine_depth": maxd},
        "exhaustive": True})
    res.assumptions = ["processor is memoryless between steps (checked: temp.fun is state.fun after every step)",
                       "sibling order/naming irrelevant: processor follows parent links only"]
    return res


def replay(witness):
    if witness.get("nested"):
        from mc.common import Violation
        res = Result(PID)
        runs, viol = _nested_work([tuple(witness["parent"])])
        for key, what, w in viol:
            print(key, what)
            res.add(Violation(key, what, w))
        return res
    return replay_generic(PID, witness)
