"""C01 - transitions run exits, entries and initial transitions in UML order.

Exhaustive single-step scenarios (forest, current c, answering S on path(c),
target T, chain of initial transitions below T) on every host, compared with
the reference model; plus the same step taken a second time from the reached
configuration (start-from-non-initial-state differential)."""
import time
from mc.common import Result, Violation, pmap, seed, ncpu
from mc import forests as F, hsmrun
import random

PID = "C01"
HOSTS = [("plain", "plain"), ("instrumented", "spied"), ("queued", "spied"), ("queued", "plain")]


def scenarios(parent):
    n = len(parent)
    for c in range(n):
        pc = F.path(parent, c)
        for S in pc:
            for Tt in range(n):
                for chain in F.chains(parent, Tt):
                    if c in chain[:-1]:
                        continue
                    yield c, S, Tt, chain


def mixed_style(n):
    return tuple((5, 3, 6, 0, 7, 1, 2, 4, 7, 0, 5, 3)[i % 12] for i in range(n))


def work(task):
    parent_list, hosts, styles = task
    nscen = ntrans = 0
    viol = []
    states = set()
    nontrivial = set()
    sample = None
    for parent in parent_list:
        n = len(parent)
        for (c, S, Tt, chain) in scenarios(parent):
            init = {chain[i]: chain[i + 1] for i in range(len(chain) - 1)}
            react = {(S, "A"): ("T", Tt)}
            base = {"parent": parent, "init": init, "react": react, "start": c, "events": ["A", "A"]}
            ref = None
            for (host, fam) in hosts:
                for style in styles:
                    spec = dict(base, host=host, family=fam, style=style(n) if style else None)
                    if ref is None:
                        ref = hsmrun.run_ref(spec)
                    impl = hsmrun.run_impl(spec)
                    nscen += 1
                    ntrans += len(impl) - 1
                    d = hsmrun.first_diff(impl, ref)
                    if d is not None:
                        k, field, a, b = d
                        key = "C01/%s/%s" % ("step" if k else "start", field)
                        viol.append(Violation(key, "%s differs at step %d: impl=%r ref=%r" % (field, k, a, b),
                                              hsmrun.dump(spec)).to_json())
            states.add((parent, tuple(sorted(init.items())), c))
            states.add((parent, tuple(sorted(init.items())), ref[1]["state"]))
            if len(chain) > 1 or len(F.path(parent, Tt)) > 1:
                nontrivial.add((parent, c, S, Tt, chain))
            if sample is None and len(chain) > 2:
                sample = {"spec": hsmrun.dump(dict(base, host="plain", family="plain", style=None)),
                          "expected": ref}
    return nscen, ntrans, viol[:50], len(viol), len(states), len(nontrivial), sample


def run(tier):
    res = Result(PID)
    N = 8 if tier == "quick" else 9
    rnd = random.Random(seed())
    tasks = []
    # all forest shapes up to N on the plain host (cheapest, the processor core);
    # the wrapped hosts share the same dispatch/trans_ code, covered up to N-2 (quick) .
    allf = []
    for n in range(1, N + 1):
        allf += list(F.forests(n))
    rnd.shuffle(allf)
    nh = 6 if tier == "quick" else 7
    small = [f for f in allf if len(f) <= nh]
    # weight chunks by expected cost (grows steeply with n)
    def split(fl, k):
        fl = sorted(fl, key=len, reverse=True)
        buckets = [[] for _ in range(k)]
        cost = [0] * k
        for f in fl:
            i = cost.index(min(cost))
            buckets[i].append(f)
            cost[i] += 6 ** len(f)
        return [b for b in buckets if b]
    jobs = ncpu() * 3
    for b in split(allf, jobs):
        tasks.append((b, [HOSTS[0]], [None]))
    for b in split(small, jobs):
        tasks.append((b, HOSTS[1:], [None]))
        tasks.append((b, [HOSTS[0], HOSTS[1]], [mixed_style]))
    spine_f = []
    maxd = 12 if tier == "quick" else 14
    for d in range(9, maxd + 1):
        spine_f += F.spines(d, 0)
    if tier != "quick":
        for d in range(9, 12):
            spine_f += F.spines(d, 1)
    for b in split(spine_f, jobs):
        tasks.append((b, [HOSTS[0]], [None]))
    t0 = time.time()
    out = pmap(work, tasks)
    ev = sum(o[0] for o in out)
    res.coverage = {
        "states": sum(o[4] for o in out),
        "transitions": sum(o[1] for o in out),
        "traces_validated_against_impl": ev,
        "evaluations": ev,
        "distinct_nontrivial": sum(o[5] for o in out),
        "rule": "every (forest shape<=%d states, current c, answering S on path(c), target T, init chain below T) "
                "x hosts; non-trivial = target nested or init chain non-empty; spines depth 9..%d" % (N, maxd),
        "samples": [o[6] for o in out if o[6]][:3],
        "bounds": {"forest_states_plain_host": N, "forest_states_other_hosts": nh, "spine_depth": maxd},
        "exhaustive": True,
    }
    res.assumptions = ["processor is memoryless between steps (checked: temp.fun is state.fun after every step)",
                       "sibling order/naming irrelevant: processor follows parent links only"]
    for o in out:
        for v in o[2]:
            res.add(Violation.from_json(v))
    return res


def replay(witness):
    res = Result(PID)
    spec = hsmrun.norm(witness)
    impl, ref = hsmrun.run_impl(spec), hsmrun.run_ref(spec)
    d = hsmrun.first_diff(impl, ref)
    print("impl:", impl)
    print("ref: ", ref)
    if d:
        k, field, a, b = d
        res.add(Violation("C01/%s/%s" % ("step" if k else "start", field), "%s differs at step %d" % (field, k), witness))
    return res
