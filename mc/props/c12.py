"""C12 - stop() ends the active object's thread and its timed sources; other
active objects and the fabric keep running; stop() from a handler ends the
thread after the current step.  stop() is placed by the explorer at every point
of the window (deviation bound, early timers included)."""
from mc.common import Result, Violation
from mc import sched, aoenv, explore, aoharness as H
from mc.props.c05 import fill
from miros.event import Event

PID = "C12"
CODES = H.QUEUE_CORE + ["ActiveObject.__post_event", "ActiveObject.cancel_event", "ActiveObject.stop",
                        "ActiveFabricSource.thread_runner", "ActiveFabricSource.publish"]


class Stop:
    name = "c12"
    horizon = 8000
    fair_k = 80
    lock_points = False
    free_cost = 0.34
    time_horizon = 1.0

    def __init__(self, mode="line"):
        self.mode, self._ready = mode, False

    def setup_process(self):
        if not self._ready:
            aoenv.install()
            sched.monitor(H.pick_codes(CODES), self.mode)
            self._ready = True

    def body(self, s, p):
        aoenv.reset()
        script = {"S": [("stop",)]}
        if p.get("arm"):
            # the step that is in flight when stop() arrives starts a timed source of its own
            script["A"] = [("call", lambda chart, e: chart.post_fifo(Event(signal="D", payload="armed"), period=0.5, times=0,
                                                                     deferred=p["arm"] == "deferred"))]
        a1 = H.new_ao("a1", H.make_state(name="st1", script=script))
        a2 = H.new_ao("a2", H.make_state(name="st2"), start=False)
        a2.subscribe(Event(signal="C"))
        a2.start_at(H.make_state(name="st2"))
        flags = []
        for k in range(p["sources"]):
            a1.post_fifo(Event(signal="D", payload="t%d" % k), period=0.5, times=0 if k == 0 else 2, deferred=(k == 0))
        flags = [pe.task_run_event for pe in a1.posted_events_queue]
        s.settle()
        s.open_window()
        w0 = s.steps
        for k in range(p["pending"]):
            a1.post_fifo(Event(signal="A", payload="e%d" % k))
        info = {}
        if p["mode"] == "outside":
            go = sched.CEvent()
            if p.get("racer_post"):
                # another thread starts a timed source on the object while stop() is at work
                def race():
                    go.wait()
                    if p["racer_post"] == "late":
                        a1.thread.join()        # ... namely while it cancels the timed sources, after the object's thread has ended
                    try:
                        a1.post_fifo(Event(signal="D", payload="racer"), period=0.5, times=0, deferred=True)
                    except Exception as e:  # noqa
                        info["racer_exception"] = "%s: %s" % (type(e).__name__, e)
                    info["racer_step"] = s.steps
                sched.CThread(target=race, name="racer").start()

            def stopper():
                go.set()
                a1.stop()
                info["stop_step"] = s.steps
                info["alive_after"] = a1.thread._vt is not None and not a1.thread._vt.finished
                info["flags_after"] = [f._flag for f in flags]
                info["tracked_after"] = len(a1.posted_events_queue)
                s.note("stop-returned")
            t = sched.CThread(target=stopper, name="stopper")
            t.start()
            s.settle()
        elif p["mode"] == "twin":
            # stop() is called from a handler of ANOTHER active object that carries the same name (names are not unique:
            # unnamed objects started at the same state derive equal names); for a1 that is "another thread"
            def kill(chart, e):
                a1.stop()
                info["stop_step"] = s.steps
                info["alive_after"] = a1.thread._vt is not None and not a1.thread._vt.finished
                info["flags_after"] = [f._flag for f in flags]
                info["tracked_after"] = len(a1.posted_events_queue)
                s.note("stop-returned")
            st3 = H.make_state(name="st3", script={"K": [("call", kill)]})
            tw = H.new_ao("tw", st3, start=False)
            tw.name = a1.name
            tw.start_at(st3)
            tw.post_fifo(Event(signal="K", payload="kill"))
            s.settle()
        else:
            a1.post_fifo(Event(signal="S", payload="stop"))
            a1.post_fifo(Event(signal="A", payload="after"))
            s.settle()
        mid = s.steps
        # the bystander and the fabric still work
        a2.post_fifo(Event(signal="B", payload="fresh"))
        a2.publish(Event(signal="C", payload="pub"))
        s.settle()
        rtc1 = [(x[0], x[5]) for x in s.log if x[3] == "rtc-begin" and x[4] == "a1" and x[0] >= w0 and x[5] != "K/kill"]
        rtc2 = [(x[0], x[5]) for x in s.log if x[3] == "rtc-begin" and x[4] == "a2" and x[0] >= mid]
        apps = [(x[0], x[1], x[4]) for x in H.dq_ops(s, "a1") if x[3] in ("append", "appendleft") and (x[4] or "").startswith("D/")]
        info.update({"rtc1": rtc1, "rtc2": [l for _, l in rtc2], "timer_appends": apps,
                     "a1_finished": a1.thread._vt.finished, "a2_alive": not a2.thread._vt.finished,
                     "fabric_alive": [t.name for t in s.threads if "fabric" in t.name and not t.finished],
                     "thread_exceptions": [x[:3] for x in s.thread_exceptions],
                     "stop_in_handler_step": [x[0] for x in s.log if x[3] == "rtc-end" and x[4] == "a1" and x[5] == "S/stop"]})
        return info

    def on_abort(self, s, p):
        return {"threads": [x for x in s.snapshot if not x[2]][:10]}

    def check(self, p, ex):
        tag = "C12/%s" % p["mode"]
        if ex.verdict != "done":
            return [("%s/%s" % (tag, ex.verdict), "execution ended with %s: %r" % (ex.verdict, ex.obs))]
        o = ex.obs
        out = []
        if o["thread_exceptions"]:
            out.append((tag + "/exception", "%r" % (o["thread_exceptions"],)))
        if p["mode"] in ("outside", "twin"):
            ss = o.get("stop_step")
            if ss is None:
                return out + [(tag + "/stop-did-not-return", "stop() never returned")]
            if o["alive_after"]:
                out.append((tag + "/thread-alive", "the object's thread was still alive when stop() returned"))
            late = [x for x in o["rtc1"] if x[0] > ss]
            if late:
                out.append((tag + "/step-after-stop", "run-to-completion steps %r began after stop() had returned (step %d)" % (late, ss)))
            # a source started by another thread while stop() was at work may be ordered after it: it owes nothing
            slack = 1 if p.get("racer_post") else 0
            if o.get("racer_exception"):
                out.append((tag + "/racing-post-raised", "a timed post made while stop() was at work raised %s" % o["racer_exception"]))
            if any(o["flags_after"]) or o["tracked_after"] > slack:
                out.append((tag + "/sources-not-cancelled", "run flags %r, %d sources still tracked when stop() returned" % (o["flags_after"], o["tracked_after"])))
            latea = [x for x in o["timer_appends"] if x[0] > ss and x[2] != "D/racer"]
            if latea:
                out.append((tag + "/timer-post-after-stop", "timed sources posted %r after stop() had returned (step %d)" % (latea, ss)))
        else:
            if not o["a1_finished"]:
                out.append((tag + "/thread-alive", "the object's thread is still alive at quiescence after stop() in a handler"))
            sh = o["stop_in_handler_step"]
            if not sh:
                out.append((tag + "/stop-event-not-dispatched", "rtc log %r" % (o["rtc1"],)))
            else:
                late = [x for x in o["rtc1"] if x[0] > sh[0]]
                if late:
                    out.append((tag + "/step-after-stop", "steps %r ran after the step that called stop()" % (late,)))
        if not o["a1_finished"] and p["mode"] in ("outside", "twin"):
            out.append((tag + "/thread-alive-at-end", "thread alive at quiescence"))
        if sorted(o["rtc2"]) != ["B/fresh", "C/pub"] or not o["a2_alive"] or len(o["fabric_alive"]) != 2:
            out.append((tag + "/bystander", "after the stop the other active object dispatched %r (expected B/fresh and C/pub), alive=%s, fabric threads %r" % (
                o["rtc2"], o["a2_alive"], o["fabric_alive"])))
        return out


def params(tier):
    q = tier == "quick"
    ps = []
    for pending in (0, 1, 2):
        for sources in (0, 1, 2):
            if q and pending == 2 and sources == 2:
                continue
            b = 1 if (q and (sources == 2 or pending == 2)) else 2
            ps.append({"mode": "outside", "pending": pending, "sources": sources, "bound": b,
                       "time_horizon": 0.5 if sources else 0.0})
    for arm in ("deferred", "now"):
        ps.append({"mode": "outside", "pending": 1, "sources": 0, "arm": arm, "bound": 1 if q else 2, "time_horizon": 0.5})
    ps.append({"mode": "outside", "pending": 2, "sources": 1, "arm": "deferred", "bound": 1, "time_horizon": 0.5})
    for sources in (0, 1):
        ps.append({"mode": "outside", "pending": 0, "sources": sources, "racer_post": "early", "bound": 1 if q else 2, "time_horizon": 0.5})
        ps.append({"mode": "outside", "pending": 0, "sources": sources, "racer_post": "late", "bound": 1 if q else 2, "time_horizon": 0.5})
    for pending in (1, 2):
        ps.append({"mode": "twin", "pending": pending, "sources": 1, "bound": 1, "time_horizon": 0.5})
    ps.append({"mode": "twin", "pending": 1, "sources": 0, "arm": "deferred", "bound": 1, "time_horizon": 0.5})
    for pending in (0, 1):
        for sources in (0, 1):
            ps.append({"mode": "handler", "pending": pending, "sources": sources, "bound": 1 if q else 2,
                       "time_horizon": 0.5 if sources else 0.0})
    return ps


def run(tier):
    res = Result(PID)
    st = explore.explore(Stop("line"), params(tier), 2)
    # a timed post of another thread landing while stop() walks the tracked sources: needs a switch inside a source line
    late = [dict(p, bound=1.4) for p in params(tier) if p.get("racer_post") == "late"]
    st.merge(explore.explore(explore.hybrid(Stop("instr")), late, 1.4))
    ix = None
    if tier != "quick":
        sel = [dict(p, bound=2.015) for p in params(tier) if p["mode"] == "outside" and p["pending"] <= 1 and p["sources"] <= 1][:4]
        ix = explore.extra(st, explore.hybrid(Stop("instr")), sel, 2.015, 1200,
                           "stop() from outside with <= 1 pending event and <= 1 source at instruction granularity (at most one deviation inside a line)")
    fill(res, st, 2, "line", "; stop() from another thread / from a handler x 0-2 pending events x 0-2 timed sources, "
         "a second active object and the fabric as bystanders; a timed post of another thread while stop() is at work (before / "
         "after the object's thread has ended; the latter also at instruction granularity, one deviation inside a source line)")
    if ix:
        res.coverage["instruction_extra"] = ix
    res.assumptions = ["'after stop() returns' = scheduler step index of the return vs step index of later actions"]
    return res


def replay(w):
    res = Result(PID)
    ex, v = explore.replay(Stop("line"), w)
    print(ex.verdict, ex.obs)
    for key, what in v:
        res.add(Violation(key, what, w))
    return res
