"""C15 - defer holds events back until recall, oldest first.  BFS over
{post_fifo(x), next_rtc, complete_circuit, defer(x), recall} where handling D
defers D and handling E recalls (from inside the step)."""
from mc.common import Result
from mc import queued

PID = "C15"
ALPHA = ([("post_fifo", x) for x in "ADET"] + [("post_lifo", x) for x in "DE"] + [("defer", x) for x in "AB"] + [("defer_same", "A")] +
         [("recall",), ("next_rtc",), ("complete_circuit",)])


def run(tier):
    res = Result(PID)
    depth = 6 if tier == "quick" else 8
    queued.run_bfs(res, PID, ALPHA, depth)
    res.coverage["rule"] = ("BFS over operation sequences of depth <= %d over %r on a real HsmWithQueues chart (spied and plain "
                            "states) vs two lists (queue, deferred); states = distinct (queue, deferred) contents; every "
                            "transition compares recall's return value, dispatch log and both queues" % (depth, ALPHA))
    res.assumptions = ["events with the same signal are interchangeable"]
    return res


def replay(w):
    return queued.replay(PID, w)
