"""C13 - fabric start/stop/restart keeps exactly one delivery thread per kind,
is_alive() tells the truth, stop() ends both threads and halts active objects
at their next wake-up, a later start() resumes delivery.

(a) BFS over operation sequences {start, stop, clear, subscribe, publish, start
    an active object, post to it} on the real fabric and a real active object
    under the controlled scheduler; every thread the code starts is seen in
    the scheduler's own thread table, so 'live delivery threads' does not rely
    on the handles the fabric keeps.  The invariant '<= 1 live thread per
    kind' is evaluated at every scheduling point, not only between operations.
(b) start() racing start(), stop() and an active object's start_at, every
    schedule to the preemption bound."""
from mc.common import Result, Violation, ToolingError
from mc import sched, aoenv, explore, fabric, aoharness as H
from mc.props.c05 import fill
from miros.event import Event
import miros.activeobject as ao_mod

PID = "C13"
OPS = [("start",), ("stop",), ("clear",), ("sub",), ("pub",), ("ao_start",), ("ao_post",), ("sub_bad",), ("pub_bad",)]


class BrokenQueue:
    """a subscriber whose queue cannot take an event: delivering to it kills the (fifo) delivery thread - the fault that
    leaves the fabric with exactly one of its two threads"""

    def append(self, item):
        raise RuntimeError("broken subscriber queue")
    appendleft = append


def live_now(s):
    return fabric.fabric_threads(s)


def snapshot_live(s):
    """live delivery threads in the snapshot taken when the execution was aborted (the thread table itself is being torn
    down by then: reading it would depend on timing)"""
    live = {"fifo": 0, "lifo": 0}
    for x in s.snapshot or ():
        if not x[2] and x[0] in ("fifo active fabric", "lifo active fabric"):
            live[x[0].split(" ")[0]] += 1
    return live


class Seq(fabric.SeqHarness):
    name = "c13-seq"

    def body(self, s, p):
        aoenv.reset()
        fab = ao_mod.ActiveFabric()
        q0 = fabric.make_queues()[0]
        st = {"over": None}

        def inv():
            l = live_now(s)
            if (l["fifo"] > 1 or l["lifo"] > 1) and st["over"] is None:
                st["over"] = (dict(l), s.steps)
        s.on_point = inv
        s.open_window()
        steps = []
        a = None
        state = H.make_state(name="idle")
        for k, op in enumerate(p["ops"]):
            op = tuple(op)
            rec = {}
            if op[0] == "start":
                fab.start()
            elif op[0] == "stop":
                fab.stop()
                rec["live_at_return"] = live_now(s)
            elif op[0] == "clear":
                fab.clear()
            elif op[0] == "sub":
                fab.subscribe(q0, Event(signal="A"))
            elif op[0] == "pub":
                fab.publish(Event(signal="A", payload="p%d" % k))
            elif op[0] == "sub_bad":
                fab.subscribe(BrokenQueue(), Event(signal="X"), queue_type="fifo")
            elif op[0] == "pub_bad":
                fab.publish(Event(signal="X", payload="x%d" % k))
            elif op[0] == "ao_start":
                a = H.new_ao("ao", state, start=False)
                a.subscribe(Event(signal="A"))
                a.start_at(state)
            elif op[0] == "ao_post":
                a.post_fifo(Event(signal="B", payload="b%d" % k))
            s.settle()
            inv()
            rec.update({"live": live_now(s), "is_alive": bool(fab.is_alive()),
                        "q0": fabric.contents(q0),
                        "ao_finished": None if a is None else bool(a.thread._vt.finished),
                        "ao_rtc": [x[5] for x in s.log if x[3] == "rtc-begin" and x[4] == "ao"]})
            steps.append(rec)
        return {"steps": steps, "over": st["over"], "thread_exceptions": [x[:3] for x in s.thread_exceptions],
                "handles": [None if t is None else ("alive" if (t._vt and not t._vt.finished) else "dead")
                            for t in (fab.fifo_thread, fab.lifo_thread)],
                "registry": {k: {sig: len(v) for sig, v in r.items()} for k, r in
                             (("fifo", fab.fifo_subscriptions), ("lifo", fab.lifo_subscriptions))},
                "flag": bool(ao_mod.FiberThreadEvent()._flag)}

    def on_abort(self, s, p):
        return {"threads": [x for x in s.snapshot if not x[2]][:8], "live": snapshot_live(s)}


def enabled(path):
    have_ao = any(op[0] == "ao_start" for op in path)
    out = []
    for op in OPS:
        if op[0] == "ao_start" and have_ao:
            continue
        if op[0] == "ao_post" and not have_ao:
            continue
        if op[0] == "sub_bad" and any(o[0] == "sub_bad" for o in path):
            continue
        if op[0] == "pub_bad" and not any(o[0] == "sub_bad" for o in path):
            continue
        out.append(op)
    return out


def model(path):
    """per step: running, and for every publication label the [lo, hi] number of deliveries q0 / the active object
    must have seen by the end; ao status after each step"""
    running = False
    fifo_dead = False            # the fifo delivery thread was killed by the broken subscriber and not restarted yet
    bad = False                  # the broken subscriber is registered
    subs = set()
    ao = None                    # None | 'alive' | 'doomed' | 'unknown' | 'halted'
    pubs = {}                    # label -> {"q0": [lo, hi], "ao": [lo, hi]}
    posts = {}                   # label -> [lo, hi]
    per_step = []
    for k, op in enumerate(path):
        op = tuple(op)
        if op[0] == "start":
            running = True
            fifo_dead = False
            if ao == "doomed":
                ao = "unknown"  # restarted before the object woke up: not constrained
        elif op[0] == "stop":
            running = False
            fifo_dead = False
            if ao == "alive":
                ao = "doomed"
        elif op[0] == "sub_bad":
            bad = True
        elif op[0] == "pub_bad":
            if running and bad and not fifo_dead:
                fifo_dead = True
        elif op[0] == "clear":
            bad = False
            subs.clear()                # (publications are delivered before the next op: nothing is waiting that was owed)
        elif op[0] == "sub":
            subs.add("q0")
        elif op[0] == "ao_start":
            # the object subscribes before start_at; start_at starts the fabric if it is not alive
            # (with one delivery thread dead is_alive() is False: start_at restarts the fabric)
            running = True
            fifo_dead = False
            ao = "alive"
            subs.add("ao")
        elif op[0] == "pub":
            lab = "A/p%d" % k
            e = {}
            for t in ("q0", "ao"):
                if running and not fifo_dead and t in subs and (t == "q0" or ao == "alive"):
                    e[t] = [1, 1]
                elif t in subs or not running or fifo_dead:
                    e[t] = [0, 1]        # made while the fabric does not (fully) run - it waits and may reach a later
                    #                      subscriber - or to a halted/unknown object
                else:
                    e[t] = [0, 0]
            pubs[lab] = e
        elif op[0] == "ao_post":
            lab = "B/b%d" % k
            if ao == "alive":
                posts[lab] = [1, 1]
            elif ao == "doomed":
                posts[lab] = [0, 0]
                ao = "halted"
            else:
                posts[lab] = [0, 1]
        per_step.append({"running": running, "ao": ao, "fifo_dead": fifo_dead})
    return per_step, pubs, posts


def judge(path, ex):
    if ex.verdict != "done":
        last = path[-1][0] if path else "?"
        blocked = ""
        if isinstance(ex.obs, dict):
            blocked = " still blocked: %r" % (ex.obs.get("threads"),)
        return [("%s/seq/%s/last=%s" % (PID, ex.verdict, last), "sequence %r ended with %s (the last call never returned)%s" % (
            list(path), ex.verdict, blocked))]
    o = ex.obs
    out = []
    unexpected = [x for x in o["thread_exceptions"] if "broken subscriber queue" not in x[2]]
    if unexpected:
        out.append(("%s/seq/exception" % PID, "after %r a thread died: %r" % (list(path), unexpected)))
    if o["over"]:
        out.append(("%s/seq/two-threads-of-a-kind" % PID, "during %r the live delivery threads were %r (scheduler step %d)" % (
            list(path), o["over"][0], o["over"][1])))
    per_step, pubs, posts = model(path)
    for k, (op, rec, m) in enumerate(zip(path, o["steps"], per_step)):
        l = rec["live"]
        both = l["fifo"] == 1 and l["lifo"] == 1
        if rec["is_alive"] != both:
            out.append(("%s/seq/is_alive-wrong/reports=%s" % (PID, rec["is_alive"]), "after %r is_alive() says %s, live delivery threads %r" % (
                list(path[:k + 1]), rec["is_alive"], l)))
        if op[0] == "stop" and (rec["live_at_return"]["fifo"] or rec["live_at_return"]["lifo"]):
            out.append(("%s/seq/stop-left-threads" % PID, "after %r stop() returned with live delivery threads %r" % (
                list(path[:k + 1]), rec["live_at_return"])))
        if m["running"] and m["fifo_dead"]:
            if l != {"fifo": 0, "lifo": 1}:
                out.append(("%s/seq/after-thread-death" % PID, "after %r (the fifo thread was killed by a broken subscriber) live delivery "
                            "threads are %r" % (list(path[:k + 1]), l)))
        elif m["running"] and not both:
            out.append(("%s/seq/not-running-after-start" % PID, "after %r the fabric should run, live delivery threads %r" % (
                list(path[:k + 1]), l)))
        if m["ao"] == "halted" and rec["ao_finished"] is False:
            out.append(("%s/seq/object-not-halted" % PID, "after %r the active object woke up after stop() and is still running" % (
                list(path[:k + 1]),)))
        if m["ao"] == "alive" and rec["ao_finished"]:
            out.append(("%s/seq/object-died" % PID, "after %r the active object's thread ended although the fabric was never stopped" % (
                list(path[:k + 1]),)))
    last = o["steps"][-1] if o["steps"] else {"q0": [], "ao_rtc": []}
    for lab, e in pubs.items():
        n = last["q0"].count(lab)
        if not (e["q0"][0] <= n <= e["q0"][1]):
            out.append(("%s/seq/delivery-%s" % (PID, "missing" if n < e["q0"][0] else "extra"),
                        "after %r the subscribed queue holds %s %d times, expected %d..%d" % (list(path), lab, n, e["q0"][0], e["q0"][1])))
        n = last["ao_rtc"].count(lab)
        if not (e["ao"][0] <= n <= e["ao"][1]):
            out.append(("%s/seq/object-delivery-%s" % (PID, "missing" if n < e["ao"][0] else "extra"),
                        "after %r the active object dispatched %s %d times, expected %d..%d" % (list(path), lab, n, e["ao"][0], e["ao"][1])))
    for lab, (lo, hi) in posts.items():
        n = last["ao_rtc"].count(lab)
        if not (lo <= n <= hi):
            out.append(("%s/seq/object-post-%s" % (PID, "lost" if n < lo else "dispatched-after-stop"),
                        "after %r the active object dispatched %s %d times, expected %d..%d" % (list(path), lab, n, lo, hi)))
    return out


def canon(path, ex):
    o = ex.obs
    per_step, pubs, posts = model(path)
    last = o["steps"][-1]
    return (tuple(sorted(per_step[-1].items(), key=str)), tuple(sorted(last["live"].items())), tuple(o["handles"]), o["flag"],
            tuple(sorted((k, tuple(sorted(v.items()))) for k, v in o["registry"].items())),
            len(last["q0"]), len(last["ao_rtc"]), last["ao_finished"],
            tuple(sorted((tuple(v["q0"]), tuple(v["ao"])) for v in pubs.values())))


# ------------------------------------------------------------------ (c) a delivery thread that cannot be launched

class LaunchFault:
    """start() during which the operating system refuses one of the two delivery threads ('RuntimeError: can't start
    new thread'), inside every short sequence of start/stop calls; the invariant is evaluated at every scheduling point"""
    name = "c13-launch-fault"
    horizon = 20000
    lock_points = False
    fair_k = 10 ** 9

    def __init__(self):
        self._ready = False

    def setup_process(self):
        if not self._ready:
            aoenv.install()
            sched.unmonitor()
            self._ready = True

    def body(self, s, p):
        aoenv.reset()
        fab = ao_mod.ActiveFabric()
        q0 = fabric.make_queues()[0]
        st = {"over": None}

        def inv():
            l = live_now(s)
            if (l["fifo"] > 1 or l["lifo"] > 1) and st["over"] is None:
                st["over"] = (dict(l), s.steps)
        s.on_point = inv
        s.open_window()
        steps = []
        for op in p["ops"]:
            rec = {"op": op}
            if op == "start":
                fab.start()
            elif op == "stop":
                fab.stop()
                rec["live_at_return"] = live_now(s)
            elif op.startswith("start_fail_"):
                s.fail_thread_start = {"%s active fabric" % op.split("_")[2]}
                try:
                    fab.start()
                    rec["raised"] = False
                except RuntimeError as e:
                    rec["raised"] = str(e)
                s.fail_thread_start = None
            s.settle()
            inv()
            rec.update({"live": live_now(s), "is_alive": bool(fab.is_alive())})
            steps.append(rec)
        # whatever happened: a start() gives exactly one thread per kind, delivery works, a stop() ends both
        fab.start()
        s.settle()
        inv()
        after_start = live_now(s)
        alive = bool(fab.is_alive())
        fab.subscribe(q0, Event(signal="A"))
        fab.subscribe(q0, Event(signal="A"), queue_type="lifo")
        fab.publish(Event(signal="A", payload="final"))
        s.settle()
        got = fabric.contents(q0)
        fab.stop()
        return {"steps": steps, "over": st["over"], "after_start": after_start, "alive_after_start": alive, "q0": got,
                "after_stop": live_now(s), "thread_exceptions": [x[:3] for x in s.thread_exceptions]}

    def on_abort(self, s, p):
        return {"threads": [x for x in s.snapshot if not x[2]][:8], "live": snapshot_live(s)}

    def check(self, p, ex):
        if ex.verdict != "done":
            return [("%s/launch-fault/%s" % (PID, ex.verdict), "sequence %r ended with %s: %r" % (p["ops"], ex.verdict, ex.obs))]
        o = ex.obs
        out = []
        if o["thread_exceptions"]:
            out.append(("%s/launch-fault/exception" % PID, "%r: %r" % (p["ops"], o["thread_exceptions"])))
        if o["over"]:
            out.append(("%s/launch-fault/two-threads-of-a-kind" % PID, "during %r (a delivery thread could not be launched once) the live delivery "
                        "threads were %r (scheduler step %d)" % (p["ops"], o["over"][0], o["over"][1])))
        for k, rec in enumerate(o["steps"]):
            l = rec["live"]
            both = l["fifo"] == 1 and l["lifo"] == 1
            if rec["is_alive"] != both:
                out.append(("%s/launch-fault/is_alive-wrong/reports=%s" % (PID, rec["is_alive"]), "after %r is_alive() says %s, live delivery "
                            "threads %r" % (p["ops"][:k + 1], rec["is_alive"], l)))
            if rec["op"] == "stop" and (rec["live_at_return"]["fifo"] or rec["live_at_return"]["lifo"]):
                out.append(("%s/launch-fault/stop-left-threads" % PID, "after %r stop() returned with live delivery threads %r" % (
                    p["ops"][:k + 1], rec["live_at_return"])))
            if rec["op"] == "start" and not both:
                out.append(("%s/launch-fault/not-running-after-start" % PID, "after %r live delivery threads %r" % (p["ops"][:k + 1], l)))
        if o["after_start"] != {"fifo": 1, "lifo": 1} or not o["alive_after_start"]:
            out.append(("%s/launch-fault/restart" % PID, "after %r + start(): live delivery threads %r, is_alive() %s" % (
                p["ops"], o["after_start"], o["alive_after_start"])))
        if o["q0"].count("A/final") != 2:
            out.append(("%s/launch-fault/delivery" % PID, "after %r + start() a queue subscribed both ways received the publication %d times "
                        "(expected 2): %r" % (p["ops"], o["q0"].count("A/final"), o["q0"])))
        if o["after_stop"]["fifo"] or o["after_stop"]["lifo"]:
            out.append(("%s/launch-fault/final-stop-left-threads" % PID, "after %r + start() + stop(): live delivery threads %r" % (p["ops"], o["after_stop"])))
        return out


def fault_params(tier):
    import itertools
    ps = []
    depth = 2 if tier == "quick" else 3
    for pre in ((), ("start",), ("start", "stop")):
        for kind in ("fifo", "lifo"):
            for n in range(depth + 1):
                for post in itertools.product(("start", "stop", "start_fail_fifo", "start_fail_lifo"), repeat=n):
                    ps.append({"ops": list(pre) + ["start_fail_" + kind] + list(post), "bound": 0})
    return ps


# ------------------------------------------------------------------ (b) races

class Race:
    name = "c13-race"
    horizon = 6000
    lock_points = False
    fair_k = 80
    # starting an active object wakes several threads at once (writer, fabric, object): picking another than the default
    # successor at a blocking point costs a third of a deviation, otherwise the cost-0 orders multiply without bound
    free_cost = 0.34

    def __init__(self, mode="line"):
        self.mode, self._ready = mode, False

    def setup_process(self):
        if not self._ready:
            aoenv.install()
            sched.monitor(fabric.fabric_codes(["ActiveObject.__start", "ActiveObject.start_at"]), self.mode)
            self._ready = True

    def body(self, s, p):
        aoenv.reset()
        fab = ao_mod.ActiveFabric()
        q0 = fabric.make_queues()[0]
        fab.subscribe(q0, Event(signal="A"))
        for op in p.get("pre", ()):
            getattr(fab, op)()
        s.settle()
        st = {"over": None}

        def inv():
            l = live_now(s)
            if (l["fifo"] > 1 or l["lifo"] > 1) and st["over"] is None:
                st["over"] = (dict(l), s.steps)
        s.on_point = inv
        s.open_window()
        done = []
        state = H.make_state(name="idle")

        def worker(i, ops):
            for op in ops:
                if op == "ao_start":
                    a = H.new_ao("ao%d" % i, state, start=False)
                    a.start_at(state)
                elif op == "pub":
                    fab.publish(Event(signal="A", payload="w%d" % i))
                else:
                    getattr(fab, op)()
            done.append(i)

        for i, ops in enumerate(p["threads"]):
            sched.CThread(target=worker, args=(i, ops), name="w%d" % i).start()
        s.settle()
        inv()
        s.window = False
        mid_live = live_now(s)
        mid_alive = bool(fab.is_alive())
        # whatever happened, a stop() ends everything and a start() brings back exactly one thread per kind
        fab.stop()
        after_stop = live_now(s)
        fab.start()
        s.settle()
        inv()
        after_start = live_now(s)
        alive_after_start = bool(fab.is_alive())
        fab.subscribe(q0, Event(signal="A"))       # a subsequent subscription (a racing clear() may have dropped the first)
        fab.publish(Event(signal="A", payload="final"))
        s.settle()
        return {"done": sorted(done), "over": st["over"], "mid_live": mid_live, "mid_alive": mid_alive, "after_stop": after_stop,
                "after_start": after_start, "alive_after_start": alive_after_start, "q0": fabric.contents(q0),
                "thread_exceptions": [x[:3] for x in s.thread_exceptions]}

    def on_abort(self, s, p):
        return {"threads": [x for x in s.snapshot if not x[2]][:8], "live": snapshot_live(s)}

    def check(self, p, ex):
        if ex.verdict != "done":
            return [("%s/race/%s" % (PID, ex.verdict), "ended with %s: %r" % (ex.verdict, ex.obs))]
        o = ex.obs
        out = []
        if o["thread_exceptions"]:
            out.append(("%s/race/exception" % PID, "%r" % (o["thread_exceptions"],)))
        if o["over"]:
            out.append(("%s/race/two-threads-of-a-kind" % PID, "threads %r: live delivery threads %r at step %d" % (p["threads"], o["over"][0], o["over"][1])))
        if o["done"] != list(range(len(p["threads"]))):
            out.append(("%s/race/call-did-not-return" % PID, "%r" % (o["done"],)))
        both = o["mid_live"]["fifo"] == 1 and o["mid_live"]["lifo"] == 1
        if o["mid_alive"] != both:
            out.append(("%s/race/is_alive-wrong/reports=%s" % (PID, o["mid_alive"]), "after %r is_alive() says %s, live %r" % (p["threads"], o["mid_alive"], o["mid_live"])))
        if p.get("expect_running") and not both:
            out.append(("%s/race/not-running" % PID, "after %r (only start calls) live delivery threads are %r" % (p["threads"], o["mid_live"])))
        if o["after_stop"]["fifo"] or o["after_stop"]["lifo"]:
            out.append(("%s/race/stop-left-threads" % PID, "after %r a stop() left %r" % (p["threads"], o["after_stop"])))
        if o["after_start"] != {"fifo": 1, "lifo": 1} or not o["alive_after_start"]:
            out.append(("%s/race/restart" % PID, "after %r, stop(), start(): live %r, is_alive %s" % (p["threads"], o["after_start"], o["alive_after_start"])))
        if o["q0"].count("A/final") != 1:
            out.append(("%s/race/delivery-after-restart" % PID, "after %r, stop(), start() a publication reached the subscriber %d times" % (
                p["threads"], o["q0"].count("A/final"))))
        return out


def race_params(tier):
    q = tier == "quick"
    ps = [{"threads": [["start"], ["start"]], "expect_running": True},
          {"threads": [["ao_start"], ["ao_start"]], "expect_running": True},
          {"pre": ["start"], "threads": [["stop"], ["start"]]},
          {"pre": ["start"], "threads": [["stop", "start"], ["start"]]},
          {"pre": ["start"], "threads": [["stop"], ["stop"]]},
          {"pre": ["start"], "threads": [["stop"], ["ao_start"]]},
          {"pre": ["start"], "threads": [["clear"], ["stop"]]},
          # stop() arriving while a delivery is in progress
          {"pre": ["start"], "threads": [["pub"], ["stop"]]},
          {"pre": ["start"], "threads": [["pub", "pub"], ["stop", "start"]]}]
    if not q:
        ps.append({"threads": [["start"], ["start"], ["start"]], "expect_running": True})
        ps.append({"pre": ["start"], "threads": [["stop", "start"], ["ao_start"]]})
        ps.append({"threads": [["start"], ["start"]], "expect_running": True, "bound": 3})
    return ps


def run(tier):
    res = Result(PID)
    q = tier == "quick"
    depth = 6 if q else 7
    b = fabric.bfs(PID, Seq(), None, depth, enabled, canon, judge)
    for v in b["violations"]:
        res.add(v)
    bound = 2
    st = explore.explore(Race("line"), race_params(tier), bound)
    ix = None
    if tier != "quick":
        ix = explore.extra(st, explore.hybrid(Race("instr")), [dict(p, bound=2.015) for p in race_params("quick") if "ao_start" not in str(p)],
                           2.015, 1200, "fabric-only races at instruction granularity, two deviations of which at most one inside a source line")
    fst = explore.explore(LaunchFault(), fault_params(tier), 0)
    st.merge(fst)
    fill(res, st, bound, "line")
    if ix:
        res.coverage["instruction_extra"] = ix
    cov = res.coverage
    cov["launch_fault_part"] = {"sequences": fst.executions, "distinct_outcomes": len(fst.outcomes), "verdicts": fst.verdicts}
    cov["sequential_part"] = {k: b[k] for k in ("states", "transitions", "verdicts", "depth")}
    cov["race_part"] = {"executions": st.executions, "distinct_outcomes": len(st.outcomes), "verdicts": st.verdicts}
    cov["states"] = b["states"] + max(1, len(st.fps))
    cov["transitions"] = b["transitions"] + st.steps
    cov["evaluations"] = b["transitions"] + st.executions
    cov["traces_validated_against_impl"] = cov["evaluations"]
    cov["distinct_nontrivial"] = b["states"] + st.nontrivial
    cov["samples"] = b["samples"][:1] + cov.get("samples", [])
    cov["rule"] = ("(a) BFS to depth %d over %r on the real fabric + one real active object, quiescence after every op, invariant "
                   "'<= 1 live delivery thread per kind' at every scheduling point, states = (model state, live threads, handles, "
                   "flag, registry, delivered counts); (b) %s; (c) every sequence pre + start-with-a-refused-thread-launch(fifo|lifo) + "
                   "<= %d further start/stop/faulty-start calls, then start, subscribe, publish, stop" % (depth, [o[0] for o in OPS], cov["rule"],
                                                                                                      2 if q else 3))
    res.assumptions = ["a publication made while the fabric does not run, or still waiting when clear() is called, may or may not be delivered later",
                       "an active object that was due to halt but whose fabric was restarted before it woke up is not constrained"]
    return res


def replay(w):
    res = Result(PID)
    if "ops" in w:
        path = tuple(tuple(o) for o in w["ops"])
        ex = fabric.run_ops(Seq(), path)
        print(ex.verdict, ex.obs)
        for key, what in judge(path, ex):
            res.add(Violation(key, what, w))
        return res
    ex, v = explore.replay(LaunchFault() if w.get("harness") == "c13-launch-fault" else Race("line"), w)
    print(ex.verdict, ex.obs)
    for key, what in v:
        res.add(Violation(key, what, w))
    return res
