"""C10 - timed posts fire the requested number of times at the requested period
(virtual clock; every schedule with <= k deviations: preemptions and 'the clock
advances although a thread could run')."""
import itertools
from mc.common import Result, Violation
from mc import explore, timed
from mc.props.c05 import fill

PID = "C10"


class C10(timed.TimedHarness):
    name = "c10"

    def check(self, p, ex):
        if ex.verdict == "time-horizon":
            return []       # the harness's own scripted sleep slipped past the time horizon under clock deviations: nothing observed
        if ex.verdict != "done":
            return [("C10/%s" % ex.verdict, "execution ended with %s: %r" % (ex.verdict, ex.obs))]
        o = ex.obs
        out = []
        if o["thread_exceptions"]:
            out.append(("C10/exception", "%r" % (o["thread_exceptions"],)))
        out += timed.schedule_violations(PID, p, o)
        # every posted event is dispatched (the consumer is idle otherwise)
        if sorted(o["dispatched"]) != sorted(l for (_, _, _, l) in o["appends"]):
            out.append(("C10/dispatch", "appended %r dispatched %r" % ([l for (_, _, _, l) in o["appends"]], o["dispatched"])))
        return out


def params(tier):
    ps = []
    for period, times, deferred, kind in itertools.product((0.5, 1.0), (0, 1, 2, 3), (True, False), ("fifo", "lifo")):
        if tier == "quick" and period == 1.0 and kind == "lifo" and times in (2, 3):
            continue
        ps.append({"sources": [{"sig": "A", "period": period, "times": times, "deferred": deferred, "kind": kind}],
                   "bound": 2 if times in (1, 2) else 1})
    two = [({"sig": "A", "period": 0.5, "times": 2, "deferred": True, "kind": "fifo"},
            {"sig": "B", "period": 1.0, "times": 1, "deferred": False, "kind": "lifo"}),
           ({"sig": "A", "period": 0.5, "times": 0, "deferred": False, "kind": "lifo"},
            {"sig": "A", "period": 0.5, "times": 3, "deferred": True, "kind": "fifo"})]
    # sources with the same signal started at different times, one of them already finished when the last one
    # is started (a later timed post must not disturb the running ones)
    late = [[{"sig": "A", "period": 0.25, "times": 1, "deferred": True, "kind": "fifo"},
             {"sig": "A", "period": 0.5, "times": 3, "deferred": True, "kind": "fifo"},
             {"sig": "B", "period": 0.5, "times": 1, "deferred": True, "kind": "lifo", "at": 0.75}],
            [{"sig": "A", "period": 0.5, "times": 0, "deferred": False, "kind": "lifo"},
             {"sig": "A", "period": 0.25, "times": 2, "deferred": False, "kind": "fifo"},
             {"sig": "A", "period": 0.5, "times": 2, "deferred": True, "kind": "fifo", "at": 0.6}]]
    for srcs in late:
        ps.append({"sources": srcs, "bound": 0 if tier == "quick" else 1, "time_horizon": 2.0})
    # sources created before start_at (the object's own thread does not exist yet)
    for deferred, kind, times in ((True, "fifo", 3), (False, "lifo", 2), (True, "lifo", 0)):
        ps.append({"sources": [{"sig": "A", "period": 0.5, "times": times, "deferred": deferred, "kind": kind}], "pre_start": True,
                   "bound": 1, "time_horizon": 2.0})
        ps.append({"sources": [{"sig": "A", "period": 0.5, "times": times, "deferred": deferred, "kind": kind}], "pre_start": True,
                   "start_delay": 0.75, "bound": 1, "time_horizon": 2.0})
    for a, b in two:
        # two sources waking at the same instants multiply the free (cost 0) choices: shorter horizon in the quick tier
        ps.append({"sources": [a, b], "bound": 1 if tier == "quick" else 2, "time_horizon": 1.0 if tier == "quick" else 2.0})
    return ps


def run(tier):
    res = Result(PID)
    st = explore.explore(C10("line"), params(tier), 2)
    fill(res, st, 2, "line", "; virtual clock, time horizon 2.0 s, 'timer lands first' counted as a deviation; per-parameter bound 1 or 2")
    res.assumptions = ["time is virtual: exact counts and instants relative to sleep(); drift and latency are not modelled",
                       "times=0 is checked up to the time horizon only"]
    return res


def replay(w):
    res = Result(PID)
    ex, v = explore.replay(C10("line"), w)
    print(ex.verdict, ex.obs)
    for key, what in v:
        res.add(Violation(key, what, w))
    return res
