"""C04 - an active object dispatches every posted event exactly once, in queue
order; no lost wake-up; steps never overlap.  Harnesses H1-H5 (see DESIGN 6/C04),
each explored to the deviation bound at source-line granularity."""
from mc.common import Result, Violation
from mc import sched, aoenv, explore, aoharness as H, lin
from mc.props.c05 import fill
from miros.event import Event
import miros.activeobject as ao_mod

PID = "C04"
CORE = H.QUEUE_CORE + ["ActiveObject.__post_event", "ActiveFabricSource.thread_runner", "ActiveFabricSource.publish"]


class PostHarness:
    name = "c04"
    horizon = 2500
    lock_points = False     # locks of the signal registry / singletons: a preemption before an uncontended
    #                         acquire is equivalent to one at the thread's previous scheduling point
    fair_k = 80

    def __init__(self, mode="line", codes="core"):
        self.mode, self.codes, self._ready = mode, codes, False

    def setup_process(self):
        if not self._ready:
            aoenv.install()
            sched.monitor(H.pick_codes(CORE) if self.codes == "core" else
                          (H.pick_codes(H.TOKEN_PROTOCOL) if self.codes == "tokens" else H.ao_codes()), self.mode)
            self._ready = True

    def body(self, s, p):
        aoenv.reset()
        posts = []          # records of wrapped post calls

        def do_post(chart, kind, sig, lab):
            rec = {"label": "%s/%s" % (sig, lab), "inv": s.steps, "side": "back" if kind == "fifo" else "front"}
            (chart.post_fifo if kind == "fifo" else chart.post_lifo)(Event(signal=sig, payload=lab))
            rec["ret"] = s.steps
            posts.append(rec)

        script = {}
        if p["h"] == "H2":      # the handler of A posts B (fifo) and C (lifo) from inside its step
            script["A"] = [("call", lambda chart, e: do_post(chart, "fifo", "B", "h" + e.payload)),
                           ("call", lambda chart, e: do_post(chart, "lifo", "C", "h" + e.payload))]
        if p["h"] == "H6":      # the start state's entry action posts (before the object's thread exists)
            script["ENTRY_SIGNAL"] = [("post_fifo", "B", "e1"), ("post_lifo", "C", "e2"), ("post_fifo", "B", "e3")]
        with H.QueueSize(p.get("qsize")):
            ao = H.new_ao("ao", H.make_state(script=script), start=False)
            if p["h"] == "H4":
                ao.subscribe(Event(signal="D"), queue_type=p.get("sub", "fifo"))
            ao.start_at(ao_state_of(ao, script))
            if p["h"] == "H3":
                ao.post_fifo(Event(signal="D", payload="t"), period=1.0, times=2, deferred=True) \
                    if p.get("timer", "fifo") == "fifo" else \
                    ao.post_lifo(Event(signal="D", payload="t"), period=1.0, times=2, deferred=True)
        s.settle()
        ld = ao.locking_deque
        s.fingerprint = lambda: (tuple(H.label_of(x) for x in ld.deque), ld.locking_queue._qsize())
        early = [x[5] for x in s.log if x[3] == "rtc-begin" and x[4] == "ao"]     # dispatched before the window opens
        s.open_window()
        w0 = s.steps

        def poster(i, kinds):
            for k, kind in enumerate(kinds):
                do_post(ao, kind, "A", "p%d.%d" % (i, k))

        def publisher(n):
            for k in range(n):
                ao.fabric.publish(Event(signal="D", payload="f%d" % k))

        for i, kinds in enumerate(p["posters"]):
            sched.CThread(target=poster, args=(i, kinds), name="poster%d" % i).start()
        if p["h"] == "H4":
            sched.CThread(target=publisher, args=(p.get("npub", 1),), name="publisher").start()
        s.settle()
        ops = [x for x in H.dq_ops(s, "ao") if x[0] >= w0]          # the queue is empty when the window opens
        rtc = [(x[0], x[3], x[5]) for x in s.log if x[3] in ("rtc-begin", "rtc-end") and x[4] == "ao" and x[0] >= w0]
        return {"posts": posts, "ops": ops, "rtc": rtc, "early": early,
                "deque": [H.label_of(x) for x in ld.deque], "tokens": ld.locking_queue._qsize(),
                "consumer": [t.label for t in s.threads if t.name == "ao"],
                "maxlen": ld.deque.maxlen,
                "thread_exceptions": [x[:3] for x in s.thread_exceptions]}

    def on_abort(self, s, p):
        return {"threads": [x for x in s.snapshot if not x[2]][:8]}

    def check(self, p, ex):
        tag = "C04/%s" % p["h"]
        if ex.verdict != "done":
            return [("%s/%s" % (tag, ex.verdict), "execution ended with %s: %r" % (ex.verdict, ex.obs))]
        o = uniquify(ex.obs)
        out = []
        if p["h"] == "H6" and o["early"] != ["C/e2", "B/e1", "B/e3"]:
            out.append((tag + "/start-path-posts", "the start state's entry action posted B/e1 (fifo), C/e2 (lifo), B/e3 (fifo); after start_at "
                        "the object dispatched %r, expected C/e2, B/e1, B/e3 exactly once each" % (o["early"],)))
        if o["thread_exceptions"]:
            out.append((tag + "/exception", "a thread died: %r" % (o["thread_exceptions"],)))
        # (d) steps never overlap
        depth = 0
        for (_, kind, lab) in o["rtc"]:
            depth += 1 if kind == "rtc-begin" else -1
            if depth not in (0, 1):
                out.append((tag + "/overlap", "run-to-completion steps overlap: %r" % (o["rtc"],)))
                break
        dispatched = [lab for (_, kind, lab) in o["rtc"] if kind == "rtc-begin"]
        # posts: wrapped calls + internal posters (timer / fabric) taken from the operation log
        posts = [dict(x) for x in o["posts"]]
        wrapped = set(x["label"] for x in posts)
        overflow = False
        size = 0
        for (step, now, tid, op, lab) in o["ops"]:
            if op in ("append", "appendleft"):
                if size >= o["maxlen"]:
                    overflow = True
                else:
                    size += 1
                if size >= o["maxlen"]:
                    overflow = True         # from here on a post may meet a full queue (displacement allowed)
                if lab not in wrapped:
                    side = None
                    if p["h"] == "H3":
                        side = "back" if p.get("timer", "fifo") == "fifo" else "front"
                    posts.append({"label": lab, "inv": step - 0.5, "ret": step + 0.5, "side": side})
            elif op in ("popleft", "pop"):
                size -= 1
            # (a rotate is not taken as evidence of an overflow: whether the queue was full is decided by counting)
        takes = [(step, lab) for (step, now, tid, op, lab) in o["ops"] if op == "popleft"]
        # overflow regime: at some moment the posts already invoked and not yet taken reach the capacity
        # (tokens are put before the item, so the token queue may then be full) - displacement is allowed
        evs = sorted([(x["inv"], 1) for x in posts] + [(t[0], -1) for t in takes])
        out_now = 0
        for _, d in evs:
            out_now += d
            if out_now >= o["maxlen"]:
                overflow = True
        posted = [x["label"] for x in posts]
        # (b) exactly once / nothing else
        if len(set(dispatched)) != len(dispatched):
            out.append((tag + "/dispatched-twice", "dispatched=%r" % (dispatched,)))
        if any(d not in posted for d in dispatched):
            out.append((tag + "/dispatched-unposted", "dispatched=%r posted=%r" % (dispatched, posted)))
        if [t[1] for t in takes] != dispatched:
            out.append((tag + "/take-dispatch-mismatch", "taken=%r dispatched=%r" % ([t[1] for t in takes], dispatched)))
        if not overflow:
            if sorted(dispatched) != sorted(posted):
                out.append((tag + "/lost-or-extra", "posted=%r dispatched=%r" % (sorted(posted), dispatched)))
            # (a) queue order: linearisable against the reference deque
            elif not lin.linearizable(posts, takes, final=[]):
                out.append((tag + "/order", "no linearisation of the posts explains the dispatch order %r; posts=%r" % (
                    dispatched, [(x["label"], x["side"], x["inv"], x["ret"]) for x in posts])))
        # (c) quiescence: empty queue, consumer waiting
        if o["deque"] or o["consumer"] != ["queue.get(empty)"]:
            out.append((tag + "/lost-wakeup", "at quiescence deque=%r tokens=%r consumer=%r" % (
                o["deque"], o["tokens"], o["consumer"])))
        return out


def uniquify(o):
    """the same Event object posted k times (a timed source) gets labels X, X#1, X#2 ... in
    post order, take order and dispatch order alike (the copies are indistinguishable)"""
    o = dict(o)

    def renamer():
        seen = {}

        def f(lab):
            k = seen.get(lab, 0)
            seen[lab] = k + 1
            return lab if k == 0 else "%s#%d" % (lab, k)
        return f
    ra, rp = renamer(), renamer()
    ops = []
    for (step, now, tid, op, lab) in o["ops"]:
        if op in ("append", "appendleft"):
            lab = ra(lab)
        elif op in ("popleft", "pop"):
            lab = rp(lab)
        ops.append((step, now, tid, op, lab))
    o["ops"] = ops
    rb, re_ = renamer(), renamer()
    o["rtc"] = [(st, kind, rb(lab) if kind == "rtc-begin" else re_(lab)) for (st, kind, lab) in o["rtc"]]
    return o


def ao_state_of(ao, script):
    return H.make_state(script=script)


def params(tier):
    q = tier == "quick"
    ps = []
    for posters in ([["fifo"], ["lifo"]], [["lifo"], ["lifo"]], [["fifo", "lifo"], ["fifo"]]):
        ps.append({"h": "H1", "posters": posters})
    ps.append({"h": "H2", "posters": [["fifo"]]})
    ps.append({"h": "H2", "posters": [["lifo"]]})
    ps.append({"h": "H3", "posters": [["fifo"]], "timer": "fifo"})
    ps.append({"h": "H3", "posters": [["lifo"]], "timer": "lifo"})
    # the fabric adds two delivery threads: bound 1 in the quick tier
    ps.append({"h": "H4", "posters": [["fifo"]], "sub": "fifo", "npub": 1, "bound": 1 if q else 2})
    ps.append({"h": "H4", "posters": [["lifo"]], "sub": "lifo", "npub": 2, "bound": 1 if q else 2})
    ps.append({"h": "H5", "posters": [["fifo", "fifo"], ["lifo"]], "qsize": 2})
    ps.append({"h": "H6", "posters": [["fifo"]], "bound": 1})
    if not q:
        ps.append({"h": "H2", "posters": [["lifo"], ["fifo"]]})
        ps.append({"h": "H1", "posters": [["fifo"], ["lifo"], ["fifo"]]})
        ps.append({"h": "H5", "posters": [["fifo", "fifo"], ["lifo", "fifo"]], "qsize": 2})
    return ps


class C04(PostHarness):
    time_horizon = 2.5


def run(tier):
    res = Result(PID)
    lin.selftest()
    bound = 2
    st = explore.explore(C04("line"), params(tier), bound)
    if tier != "quick":     # one harness at bound 3, under a wall-clock budget (reported as capped if it runs out)
        st3 = explore.explore(C04("line"), [{"h": "H1", "posters": [["fifo"], ["lifo"]], "bound": 3}], 3, budget_s=1500)
        capped2 = st.capped
        st.merge(st3)
        st.capped = capped2         # the bound-2 claim does not depend on whether the bound-3 extra ran out of budget
        bound3 = {"executions": st3.executions, "completed": not st3.capped, "budget_s": 1500}
    # the same two-poster harnesses at instruction granularity in the token-protocol code (LockingDeque, run_event): a
    # preemption between two calls on one source line (e.g. between qsize() and len() of one comparison) is invisible at
    # line granularity.  Quick: hybrid bound = two preemptions of which at most one inside a line; thorough: both anywhere.
    ips = [{"h": "H1", "posters": [["fifo"], ["lifo"]], "bound": 2.015}]
    hy = C04("instr", "tokens")
    hy.intra_cost = 1.01
    if tier != "quick":
        ips += [{"h": "H1", "posters": [["fifo"], ["fifo"]], "bound": 2.015}, {"h": "H1", "posters": [["lifo"], ["lifo"]], "bound": 2.015},
                {"h": "H2", "posters": [["fifo"]], "bound": 2.015}, {"h": "H5", "posters": [["fifo", "fifo"], ["lifo"]], "qsize": 2, "bound": 2.015}]
    st.merge(explore.explore(hy, ips, 2.015))
    if tier != "quick":
        st.merge(explore.explore(C04("instr", "tokens"), [{"h": "H1", "posters": [["fifo"], ["lifo"]]}], 2))
    fill(res, st, bound, "line", "; harnesses H1 external posters, H2 + posts from a handler, H3 + timed source, "
         "H4 + fabric publication, H5 overflow; plus %d harnesses at instruction granularity in LockingDeque/run_event (every "
         "shared-access-capable bytecode is a scheduling point; two preemptions, at most one of them inside a source line; "
         "thorough: one harness with both anywhere)" % len(ips))
    if tier != "quick":
        res.coverage["bound3_extra"] = bound3
    need = 2
    if len(st.outcomes) < need:
        from mc.common import ToolingError
        raise ToolingError("harness did not collide: %d distinct outcomes" % len(st.outcomes))
    return res


def replay(witness):
    res = Result(PID)
    h = C04("line")
    ex, v = explore.replay(h, witness)
    print("verdict:", ex.verdict, "obs:", ex.obs)
    for key, what in v:
        res.add(Violation(key, what, witness))
    return res
