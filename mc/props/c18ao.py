"""C18, active-object hosts: the same chart specs on a real ActiveObject (named
and unnamed, spied and plain states, live flags) under the controlled
scheduler's default schedule; events are posted and the object's own thread
dispatches them."""
from mc.common import Violation, pmap, ncpu
from mc import sched, aoenv, explore, hsmrun, charts, instr, forests as F, aoharness as H
from mc.charts import Table, use, SIG, ev
from mc.props import c01, c02
import miros.activeobject as ao_mod

PID = "C18"


class AoHost:
    name = "c18-ao"
    horizon = 20000
    lock_points = False
    fair_k = 10 ** 9

    def __init__(self):
        self._ready = False

    def setup_process(self):
        if not self._ready:
            aoenv.install()
            sched.unmonitor()
            self._ready = True

    def body(self, s, p):
        aoenv.reset()
        spec = hsmrun.norm(p["spec"])
        var = p["var"]
        instr.install_clock("inc")
        react = {(i, SIG[n]): v for (i, n), v in spec["react"].items()}
        t = Table(spec["parent"], init=spec["init"], react=react, budget=20000)
        use(t, var["family"])
        a = ao_mod.ActiveObject(name=var.get("name"))
        a.live_spy = bool(var.get("live_spy"))
        a.live_trace = bool(var.get("live_trace"))
        sink = []
        a.register_live_spy_callback(sink.append)
        a.register_live_trace_callback(sink.append)
        steps = []

        def obs():
            try:
                cur = charts.config_of(a)
            except Exception:  # noqa
                cur = "?"
            o = {"log": [x for x in t.log if x[0] != "empty"], "state": cur}
            t.log.clear()
            return o
        a.start_at(t.S[spec["start"]])
        s.settle()
        steps.append(obs())
        for name in spec["events"]:
            a.post_fifo(ev(name))
            s.settle()
            steps.append(obs())
        return {"steps": steps, "thread_exceptions": [x[:3] for x in s.thread_exceptions], "live_lines": len(sink),
                "alive": bool(a.thread is not None and not a.thread._vt.finished)}

    def on_abort(self, s, p):
        return {"threads": [x for x in s.snapshot if not x[2]][:8], "thread_exceptions": [x[:3] for x in s.thread_exceptions]}

    def check(self, p, ex):
        return []


class AoRace(AoHost):
    """live spy / live trace on, two events posted back to back from another thread while the object's own thread hands
    the first step's lines to the writer: every schedule with <= k preemptions"""
    name = "c18-ao-race"
    fair_k = 200

    def setup_process(self):
        if not self._ready:
            aoenv.install()
            import miros.hsm as hsm
            codes = H.pick_codes(["InstrumenationWriterClass.", "ActiveObject.run_event", "LockingDeque.append"])
            Q = hsm.HsmWithQueues
            for n in ("next_rtc", "post_fifo", "scribble"):
                codes += sched.code_objects_of(vars(Q).get(n) or getattr(hsm.InstrumentedHsmEventProcessor, n))
            codes += sched.code_objects_of(*[f for f in (getattr(hsm, "append_fifo_to_spy", None),) if f])
            sched.monitor(list(dict.fromkeys(codes)), "line")
            self._ready = True

    def body(self, s, p):
        aoenv.reset()
        spec = hsmrun.norm(p["spec"])
        var = p["var"]
        instr.install_clock("inc")
        react = {(i, SIG[n]): v for (i, n), v in spec["react"].items()}
        t = Table(spec["parent"], init=spec["init"], react=react, budget=20000)
        use(t, var["family"])
        a = ao_mod.ActiveObject(name="ao")
        a.live_spy = bool(var.get("live_spy"))
        a.live_trace = bool(var.get("live_trace"))
        sink = []
        a.register_live_spy_callback(sink.append)
        a.register_live_trace_callback(sink.append)
        a.start_at(t.S[spec["start"]])
        s.settle()
        t.log.clear()
        s.open_window()
        for name in spec["events"]:
            a.post_fifo(ev(name))
        a.scribble("from outside")
        s.settle()
        try:
            cur = charts.config_of(a)
        except Exception:  # noqa
            cur = "?"
        return {"log": [x for x in t.log if x[0] != "empty"], "state": cur,
                "thread_exceptions": [x[:3] for x in s.thread_exceptions], "live_lines": len(sink),
                "alive": bool(a.thread is not None and not a.thread._vt.finished)}

    def check(self, p, ex):
        var = p["var"]
        tag = "host=ActiveObject(race)/live_spy=%s/live_trace=%s" % (bool(var.get("live_spy")), bool(var.get("live_trace")))
        if ex.verdict != "done":
            return [("%s/%s/%s" % (PID, ex.verdict, tag), "ended with %s: %r" % (ex.verdict, ex.obs))]
        o = ex.obs
        out = []
        if o["thread_exceptions"] or not o["alive"]:
            out.append(("%s/exception/%s" % (PID, tag), "a thread died (object's thread alive: %s): %r" % (o["alive"], o["thread_exceptions"])))
        ref = instr.ref_steps(hsmrun.norm(p["spec"]))
        want = [x for r in ref[1:] for x in r["log"]]
        if o["log"] != want:
            out.append(("%s/actions/%s" % (PID, tag), "actions %r, reference %r" % (o["log"], want)))
        elif o["state"] != ref[-1]["state"]:
            out.append(("%s/state/%s" % (PID, tag), "rests in %r, reference %r" % (o["state"], ref[-1]["state"])))
        return out


def race_part(res, tier):
    spec = hsmrun.dump(hsmrun.norm({"parent": (-1, 0), "init": {}, "react": {(1, "A"): ("T", 0), (0, "A"): ("T", 1)},
                                    "start": 1, "events": ["A", "A"]}))
    ps = []
    for ls, lt in ((True, False), (True, True), (False, False)):
        ps.append({"spec": spec, "var": {"family": "spied", "live_spy": ls, "live_trace": lt}, "bound": 2})
    st = explore.explore(AoRace(), ps, 2)
    for key, what, w in st.violations:
        if sum(1 for x in res.violations if x.key == key) < 2:
            res.add(Violation(key, what, dict(w, ao_race=True)))
    res.coverage["ao_race_part"] = {"executions": st.executions, "distinct_outcomes": len(st.outcomes), "verdicts": st.verdicts,
                                    "rule": "a 2-state spied chart on a real ActiveObject with live spy/trace on or off, two events and a "
                                            "scribble posted back to back from another thread, every schedule with <= 2 preemptions at the "
                                            "lines of next_rtc/post_fifo/scribble/the live wrappers/the writer"}
    res.coverage["evaluations"] = res.coverage.get("evaluations", 0) + st.executions
    res.coverage["traces_validated_against_impl"] = res.coverage["evaluations"]


def judge(p, ex):
    var = p["var"]
    tag = "host=ActiveObject(%s)/family=%s" % ("named" if var.get("name") else "unnamed", var["family"])
    if isinstance(ex, str):
        return [("%s/exception/%s" % (PID, tag), ex)]
    if ex.verdict != "done":
        return [("%s/%s/%s" % (PID, ex.verdict, tag), "ended with %s: %r" % (ex.verdict, ex.obs))]
    o = ex.obs
    out = []
    if o["thread_exceptions"]:
        out.append(("%s/exception/%s" % (PID, tag), "a thread died: %r" % (o["thread_exceptions"],)))
    ref = instr.ref_steps(hsmrun.norm(p["spec"]))
    for k, (a, r) in enumerate(zip(o["steps"], ref)):
        if a["log"] != r["log"]:
            out.append(("%s/actions/%s" % (PID, tag), "step %d: actions %r, reference %r" % (k, a["log"], r["log"])))
            break
        if a["state"] != r["state"]:
            out.append(("%s/state/%s" % (PID, tag), "step %d: rests in %r, reference %r" % (k, a["state"], r["state"])))
            break
    return out


def work(ps):
    h = AoHost()
    h.setup_process()
    out = []
    for p in ps:
        try:
            ex = explore.run_execution(h, p, ())
        except Exception as e:  # noqa  (an exception in the main thread of the harness = raised by start_at/post)
            ex = "%s: %s" % (type(e).__name__, e)
        out.append((p, judge(p, ex)))
    return out


def ao_variants():
    vs = []
    for fam in ("spied", "plain"):
        for name in ("ao", None):
            vs.append({"family": fam, "name": name})
    for ls, lt in ((True, False), (False, True), (True, True)):
        vs.append({"family": "spied", "name": "ao", "live_spy": ls, "live_trace": lt})
    return vs


def run_into(res, tier):
    N = 3 if tier == "quick" else 4
    ps = []
    for n in range(1, N + 1):
        for f in F.forests(n):
            for gen in (c01.gen, c02.gen):
                for base, _ in gen(f):
                    for var in ao_variants():
                        ps.append({"spec": hsmrun.dump(hsmrun.norm(base)), "var": var})
    jobs = ncpu()
    chunks = [ps[i::jobs * 4] for i in range(jobs * 4)]
    outs = pmap(work, [c for c in chunks if c], jobs)
    n = 0
    for part in outs:
        for p, v in part:
            n += 1
            for key, what in v:
                if sum(1 for x in res.violations if x.key == key) < 2:
                    res.add(Violation(key, what, {"ao": True, "spec": p["spec"], "var": p["var"]}))
    cov = res.coverage
    cov["ao_part"] = {"executions": n, "forests_upto": N, "variants": len(ao_variants()),
                      "rule": "C01/C02 scenario families on a real ActiveObject (spied/plain x named/unnamed x live flags), default "
                              "schedule of the controlled scheduler, events posted and dispatched by the object's own thread"}
    cov["evaluations"] = cov.get("evaluations", 0) + n
    cov["traces_validated_against_impl"] = cov["evaluations"]


def replay(w):
    from mc.common import Result
    res = Result(PID)
    if w.get("ao_race"):
        ex, v = explore.replay(AoRace(), w)
        print(ex.verdict, ex.obs)
        for key, what in v:
            res.add(Violation(key, what, w))
        return res
    p = {"spec": w["spec"], "var": w["var"]}
    for part in [work([p])]:
        for _, v in part:
            for key, what in v:
                print(key, what)
                res.add(Violation(key, what, w))
    return res
