"""C18, active-object hosts: the same chart specs on a real ActiveObject (named
and unnamed, spied and plain states, live flags) under the controlled
scheduler's default schedule; events are posted and the object's own thread
dispatches them."""
from mc.common import Violation, pmap, ncpu
from mc import sched, aoenv, explore, hsmrun, charts, instr, forests as F, aoharness as H
from mc.charts import Table, use, SIG, ev
from mc.props import c01, c02
import miros.activeobject as ao_mod

PID = "C18"


class AoHost:
    name = "c18-ao"
    horizon = 20000
    lock_points = False
    fair_k = 10 ** 9

    def __init__(self):
        self._ready = False

    def setup_process(self):
        if not self._ready:
            aoenv.install()
            sched.unmonitor()
            self._ready = True

    def body(self, s, p):
        aoenv.reset()
        spec = hsmrun.norm(p["spec"])
        var = p["var"]
        instr.install_clock("inc")
        react = {(i, SIG[n]): v for (i, n), v in spec["react"].items()}
        t = Table(spec["parent"], init=spec["init"], react=react, budget=20000)
        use(t, var["family"])
        a = ao_mod.ActiveObject(name=var.get("name"))
        a.live_spy = bool(var.get("live_spy"))
        a.live_trace = bool(var.get("live_trace"))
        sink = []
        a.register_live_spy_callback(sink.append)
        a.register_live_trace_callback(sink.append)
        steps = []

        def obs():
            try:
                cur = charts.config_of(a)
            except Exception:  # noqa
                cur = "?"
            o = {"log": [x for x in t.log if x[0] != "empty"], "state": cur}
            t.log.clear()
            return o
        a.start_at(t.S[spec["start"]])
        s.settle()
        steps.append(obs())
        for name in spec["events"]:
            a.post_fifo(ev(name))
            s.settle()
            steps.append(obs())
        return {"steps": steps, "thread_exceptions": [x[:3] for x in s.thread_exceptions], "live_lines": len(sink),
                "alive": bool(a.thread is not None and not a.thread._vt.finished)}

    def on_abort(self, s, p):
        return {"threads": [x for x in s.snapshot if not x[2]][:8], "thread_exceptions": [x[:3] for x in s.thread_exceptions]}

    def check(self, p, ex):
        return []


def judge(p, ex):
    var = p["var"]
    tag = "host=ActiveObject(%s)/family=%s" % ("named" if var.get("name") else "unnamed", var["family"])
    if isinstance(ex, str):
        return [("%s/exception/%s" % (PID, tag), ex)]
    if ex.verdict != "done":
        return [("%s/%s/%s" % (PID, ex.verdict, tag), "ended with %s: %r" % (ex.verdict, ex.obs))]
    o = ex.obs
    out = []
    if o["thread_exceptions"]:
        out.append(("%s/exception/%s" % (PID, tag), "a thread died: %r" % (o["thread_exceptions"],)))
    ref = instr.ref_steps(hsmrun.norm(p["spec"]))
    for k, (a, r) in enumerate(zip(o["steps"], ref)):
        if a["log"] != r["log"]:
            out.append(("%s/actions/%s" % (PID, tag), "step %d: actions %r, reference %r" % (k, a["log"], r["log"])))
            break
        if a["state"] != r["state"]:
            out.append(("%s/state/%s" % (PID, tag), "step %d: rests in %r, reference %r" % (k, a["state"], r["state"])))
            break
    return out


def work(ps):
    h = AoHost()
    h.setup_process()
    out = []
    for p in ps:
        try:
            ex = explore.run_execution(h, p, ())
        except Exception as e:  # noqa  (an exception in the main thread of the harness = raised by start_at/post)
            ex = "%s: %s" % (type(e).__name__, e)
        out.append((p, judge(p, ex)))
    return out


def ao_variants():
    vs = []
    for fam in ("spied", "plain"):
        for name in ("ao", None):
            vs.append({"family": fam, "name": name})
    for ls, lt in ((True, False), (False, True), (True, True)):
        vs.append({"family": "spied", "name": "ao", "live_spy": ls, "live_trace": lt})
    return vs


def run_into(res, tier):
    N = 3 if tier == "quick" else 4
    ps = []
    for n in range(1, N + 1):
        for f in F.forests(n):
            for gen in (c01.gen, c02.gen):
                for base, _ in gen(f):
                    for var in ao_variants():
                        ps.append({"spec": hsmrun.dump(hsmrun.norm(base)), "var": var})
    jobs = ncpu()
    chunks = [ps[i::jobs * 4] for i in range(jobs * 4)]
    outs = pmap(work, [c for c in chunks if c], jobs)
    n = 0
    for part in outs:
        for p, v in part:
            n += 1
            for key, what in v:
                if sum(1 for x in res.violations if x.key == key) < 2:
                    res.add(Violation(key, what, {"ao": True, "spec": p["spec"], "var": p["var"]}))
    cov = res.coverage
    cov["ao_part"] = {"executions": n, "forests_upto": N, "variants": len(ao_variants()),
                      "rule": "C01/C02 scenario families on a real ActiveObject (spied/plain x named/unnamed x live flags), default "
                              "schedule of the controlled scheduler, events posted and dispatched by the object's own thread"}
    cov["evaluations"] = cov.get("evaluations", 0) + n
    cov["traces_validated_against_impl"] = cov["evaluations"]


def replay(w):
    from mc.common import Result
    res = Result(PID)
    p = {"spec": w["spec"], "var": w["var"]}
    for part in [work([p])]:
        for _, v in part:
            for key, what in v:
                print(key, what)
                res.add(Violation(key, what, w))
    return res
