"""C22 - is_in / child_state answer from the active state path and change
nothing.  Every forest, every configuration (reached by start_at and,
differentially, by a transition from another state), every query argument
(every state and top); after the queries the next step must behave exactly as
the reference model says (i.e. as without the queries)."""
import random
from mc.common import Result, Violation, seed, pmap, ncpu, BudgetExceeded
from mc import forests as F, hsmrun, charts, refmodel
from mc.hsmcheck import split, VARIANTS_ALL

PID = "C22"


def snapshot(h):
    sf = getattr(h, "state_fn", None)
    # state_fn may legitimately be the handler or the function it decorates: compare modulo decoration
    return (h.state.fun, h.temp.fun, getattr(h, "state_name", None), getattr(sf, "__wrapped__", sf))


def snap_names(s):
    return [getattr(s[0], "__name__", repr(s[0])), getattr(s[1], "__name__", repr(s[1])), s[2],
            getattr(s[3], "__name__", repr(s[3]))]


def queries(parent, c, t, h):
    """run every query in configuration c; yield violations (key, what)"""
    n = len(parent)
    pc = F.path(parent, c)
    for X in list(range(n)) + [-1]:
        fn = h.top if X < 0 else t.S[X]
        for q in ("is_in", "child_state"):
            before = snapshot(h)
            try:
                got = getattr(h, q)(fn)
                if q == "child_state":
                    got = charts.NAMES.index(got.__name__) if got.__name__ != "top" else -1
                failed = None
            except BudgetExceeded:
                yield ("hang", q, X, "did not terminate")
                return
            except Exception as e:  # noqa
                got, failed = None, type(e).__name__
            after = snapshot(h)
            if q == "is_in":
                want = X < 0 or X in pc
                if failed or got is not want:
                    yield ("answer", q, X, "is_in(%s) in %s gave %r (%s), expected %r" % (
                        charts.name_of(X), charts.name_of(c), got, failed, want))
            else:
                if X < 0 or X in pc:
                    want = c if X == c else pc[(pc.index(X) if X >= 0 else len(pc)) - 1]
                    if failed or got != want:
                        yield ("answer", q, X, "child_state(%s) in %s gave %r (%s), expected %s" % (
                            charts.name_of(X), charts.name_of(c), got, failed, charts.name_of(want)))
                elif not failed:
                    yield ("no-failure", q, X, "child_state(%s) in %s returned %r although %s does not enclose it" % (
                        charts.name_of(X), charts.name_of(c), got, charts.name_of(X)))
            if before != after:
                yield ("changed", q, X, "%s(%s) in %s changed (state.fun, temp.fun, state_name, state_fn) %s -> %s" % (
                    q, charts.name_of(X), charts.name_of(c), snap_names(before), snap_names(after)))
                # restore so that later queries are judged on their own
                h.state.fun, h.temp.fun = before[0], before[1]
                h.state_name, h.state_fn = before[2], before[3]


def scenarios(parent):
    """(spec-base, route) pairs: configuration c reached by start_at(c), or by
    starting somewhere else and transitioning into c; afterwards event B is
    answered by the outermost ancestor of c with a transition to every state."""
    n = len(parent)
    for c in range(n):
        root = F.path(parent, c)[-1]
        for Tt in range(n):
            react = {(root, "B"): ("T", Tt)}
            yield ({"parent": parent, "init": {}, "react": react, "start": c, "events": []}, c)
        for c0 in range(n):
            if c0 == c:
                continue
            react = {(c0, "A"): ("T", c), (root, "B"): ("T", (c + 1) % n)}
            yield ({"parent": parent, "init": {}, "react": react, "start": c0, "events": ["A"]}, c)


def work(task):
    parents, variants = task
    n_eval = n_q = 0
    viol = []
    states = 0
    answers = set()
    sample = None
    for parent in parents:
        n = len(parent)
        states += n
        for base, c in scenarios(parent):
            for host, fam in variants:
                spec = hsmrun.norm(dict(base, host=host, family=fam))
                t, h = hsmrun.build(spec, budget=5000)
                try:
                    h.start_at(t.S[spec["start"]])
                    for name in spec["events"]:
                        h.dispatch(charts.ev(name))
                except Exception as e:  # noqa
                    viol.append(Violation("C22/tooling/setup", repr(e), hsmrun.dump(spec)).to_json())
                    continue
                for (clause, q, X, what) in queries(parent, c, t, h):
                    key = "C22/%s/%s/family=%s" % (clause, q, fam)
                    if sum(1 for v in viol if v["key"] == key) < 3:
                        w = hsmrun.dump(spec)
                        w.update({"config": c, "query": q, "arg": X})
                        viol.append(Violation(key, what, w).to_json())
                n_q += 2 * (n + 1)
                # later behaviour: the next step must be what the reference says for configuration c
                t.log.clear()
                h.dispatch(charts.ev("B"))
                obs = hsmrun.observe(t, h)
                offers, alog, c2, kind = refmodel.step(parent, {}, spec["react"], c, "B")
                n_eval += 1
                if obs["log"] != offers + alog or obs["state"] != c2:
                    key = "C22/later-behaviour/family=%s" % fam
                    if sum(1 for v in viol if v["key"] == key) < 3:
                        w = hsmrun.dump(spec)
                        w.update({"config": c, "then": "B"})
                        viol.append(Violation(key, "after the queries, B gave %r / %s, expected %r / %s" % (
                            obs["log"], obs["state"], offers + alog, c2), w).to_json())
                if sample is None and len(F.path(parent, c)) > 2:
                    sample = {"spec": hsmrun.dump(spec), "config": c,
                              "queries": "is_in(X), child_state(X) for X in every state and top",
                              "expected_is_in_true_for": [charts.name_of(x) for x in F.path(parent, c)] + ["top"]}
    return n_eval, n_q, viol, states, sample


def run(tier):
    res = Result(PID)
    N = 8 if tier == "quick" else 9
    rnd = random.Random(seed())
    allf = [f for n in range(1, N + 1) for f in F.forests(n)]
    rnd.shuffle(allf)
    out = pmap(work, [(b, VARIANTS_ALL) for b in split(allf, ncpu() * 3)])
    for o in out:
        for v in o[2]:
            res.add(Violation.from_json(v))
    if any(v.key.startswith("C22/tooling") for v in res.violations):
        from mc.common import ToolingError
        raise ToolingError("setup of a C22 scenario failed: %r" % res.violations[0].what)
    nq = sum(o[1] for o in out)
    res.coverage = {
        "states": sum(o[3] for o in out), "transitions": nq + sum(o[0] for o in out),
        "traces_validated_against_impl": sum(o[0] for o in out),
        "evaluations": nq, "distinct_nontrivial": nq // 2,
        "rule": "every forest<=%d x configuration c (reached by start_at and by a transition from every other state) "
                "x query in {is_in, child_state} x argument in every state and top x 4 hosts; each followed by a step "
                "compared with the reference model" % N,
        "samples": [o[4] for o in out if o[4]][:3], "exhaustive": True}
    res.assumptions = ["'fails' = raises any exception (the implementation asserts)",
                       "'changes nothing' covers state.fun, temp.fun, state_name, state_fn and the next step's log"]
    return res


def replay(witness):
    res = Result(PID)
    spec = hsmrun.norm({k: v for k, v in witness.items() if k not in ("config", "query", "arg", "then")})
    t, h = hsmrun.build(spec, budget=5000)
    h.start_at(t.S[spec["start"]])
    for name in spec["events"]:
        h.dispatch(charts.ev(name))
    for (clause, q, X, what) in queries(spec["parent"], witness["config"], t, h):
        print(clause, q, X, what)
        res.add(Violation("C22/%s/%s/family=%s" % (clause, q, spec["family"]), what, witness))
    return res
