"""C02 - events bubble outward; handled or ignored events change nothing.

Every forest, every current state c, every reaction vector along path(c):
states inside the answering state choose between `defer to parent` and
`decline (guard false)`, the answering state handles internally or
transitions, everything outside it is armed (H or T) so that a wrong extra
offer would be seen; plus the vectors where nobody answers."""
import random, itertools
from mc.common import Result, seed
from mc import forests as F
from mc.hsmcheck import sweep, VARIANTS_ALL, mixed_style, replay_generic

SAME_NAME = [("plain", "plain_same_name"), ("instrumented", "spied_same_name")]
PID = "C02"


def gen(parent):
    n = len(parent)
    for c in range(n):
        pc = F.path(parent, c)
        d = len(pc)
        for k in range(d + 1):            # index of the answering state in pc; d = nobody
            for inner in itertools.product((None, "D"), repeat=k):
                answers = [("H",), ("T", pc[k]), ("T", pc[0])] if k < d else [None]
                if k < d and pc[-1] != pc[k]:
                    answers.append(("T", pc[-1]))
                for ans in answers:
                    for outer in ((("H",), ("T", c)) if k < d - 1 else (None,)):
                        react = {}
                        for i, r in enumerate(inner):
                            if r:
                                react[(pc[i], "A")] = ("D",)
                        if ans:
                            react[(pc[k], "A")] = ans
                            for x in pc[k + 1:]:
                                if outer:
                                    react[(x, "A")] = outer
                        yield ({"parent": parent, "init": {}, "react": react, "start": c,
                                "events": ["A", "A"]}, k > 0)


def run(tier):
    res = Result(PID)
    N, nh = (8, 6) if tier == "quick" else (10, 8)
    rnd = random.Random(seed())
    allf = [f for n in range(1, N + 1) for f in F.forests(n)]
    rnd.shuffle(allf)
    small = [f for f in allf if len(f) <= nh]
    spine_f = [f for d in (9, 10) for f in F.spines(d, 0)] if tier != "quick" else []
    sweep(res, [(gen, allf, VARIANTS_ALL[:1], [None]),
                (gen, small, VARIANTS_ALL[1:], [None]),
                (gen, small, VARIANTS_ALL[:2], [mixed_style]),
                (gen, spine_f, VARIANTS_ALL[:1], [None]),
                # every state function carries the same __name__ (distinct functions): states are known by identity
                (gen, [f for f in allf if len(f) <= (5 if tier == "quick" else 6)], SAME_NAME, [None])])
    res.coverage.update({
        "rule": "every (forest<=%d states, current state, reaction vector along the active path: defer/decline below "
                "the answerer, handle/transition at it, armed reactions above it, or nobody answers), two steps each; "
                "non-trivial = the event bubbles through at least one state" % N,
        "bounds": {"forest_states_plain_host": N, "forest_states_other_hosts": nh},
        "exhaustive": True})
    res.assumptions = ["an EMPTY_SIGNAL probe of a declining state is not an offer of the event",
                       "transition targets limited to the answerer, the current state and the outermost ancestor "
                       "(transition order itself is C01)"]
    return res


def replay(witness):
    return replay_generic(PID, witness)
