"""C03 - start_at enters enclosing states outside-in and follows initial
transitions.  Every forest, every start state, every init chain, all hosts."""
import random
from mc.common import Result, seed
from mc import forests as F
from mc.hsmcheck import sweep, VARIANTS_ALL, mixed_style, replay_generic

PID = "C03"


def gen(parent):
    n = len(parent)
    for S in range(n):
        for chain in F.chains(parent, S):
            init = {chain[i]: chain[i + 1] for i in range(len(chain) - 1)}
            yield ({"parent": parent, "init": init, "react": {}, "start": S, "events": []},
                   len(chain) > 1 or parent[S] >= 0)


def gen_restart(parent):
    """start at S1 (with one event that may move the chart), then start the same chart object again at S2"""
    n = len(parent)
    for S1 in range(n):
        for S2 in range(n):
            for chain in F.chains(parent, S2):
                init = {chain[i]: chain[i + 1] for i in range(len(chain) - 1)}
                if S1 in init:
                    continue        # keep the first start simple: the restart is what is enumerated
                for ev_ in ([], ["A"]):
                    react = {(S1, "A"): ("T", chain[-1])} if ev_ else {}
                    yield ({"parent": parent, "init": init, "react": react, "start": S1, "events": ev_, "restart": S2}, True)


def run(tier):
    res = Result(PID)
    N, nh, maxd = (9, 7, 14) if tier == "quick" else (10, 8, 16)
    rnd = random.Random(seed())
    allf = [f for n in range(1, N + 1) for f in F.forests(n)]
    rnd.shuffle(allf)
    small = [f for f in allf if len(f) <= nh]
    spine_f = [f for d in range(9, maxd + 1) for f in F.spines(d, 1)]
    sweep(res, [(gen, allf, VARIANTS_ALL[:1], [None]),
                (gen, small, VARIANTS_ALL[1:], [None, mixed_style]),
                (gen, spine_f, VARIANTS_ALL[:2], [None]),
                (gen_restart, [f for f in allf if len(f) <= (5 if tier == "quick" else 6)], VARIANTS_ALL, [None])])
    res.coverage.update({
        "rule": "every (forest shape<=%d states, start state, init chain below it) x hosts; non-trivial = nested "
                "start state or non-empty init chain; spine charts depth 9..%d; plus restarts of the same chart object (start at S1, "
                "optionally one transition, start again at S2 with every init chain) on forests<=5/6, all hosts" % (N, maxd),
        "bounds": {"forest_states_plain_host": N, "forest_states_other_hosts": nh, "spine_depth": maxd},
        "exhaustive": True})
    res.assumptions = ["reference model of 3.3 trusted"]
    return res


def replay(witness):
    return replay_generic(PID, witness)
