"""C03 - start_at enters enclosing states outside-in and follows initial
transitions.  Every forest, every start state, every init chain, all hosts."""
import random
from mc.common import Result, seed
from mc import forests as F
from mc.hsmcheck import sweep, VARIANTS_ALL, mixed_style, replay_generic

PID = "C03"


def gen(parent):
    n = len(parent)
    for S in range(n):
        for chain in F.chains(parent, S):
            init = {chain[i]: chain[i + 1] for i in range(len(chain) - 1)}
            yield ({"parent": parent, "init": init, "react": {}, "start": S, "events": []},
                   len(chain) > 1 or parent[S] >= 0)


def run(tier):
    res = Result(PID)
    N, nh, maxd = (9, 7, 14) if tier == "quick" else (10, 8, 16)
    rnd = random.Random(seed())
    allf = [f for n in range(1, N + 1) for f in F.forests(n)]
    rnd.shuffle(allf)
    small = [f for f in allf if len(f) <= nh]
    spine_f = [f for d in range(9, maxd + 1) for f in F.spines(d, 1)]
    sweep(res, [(gen, allf, VARIANTS_ALL[:1], [None]),
                (gen, small, VARIANTS_ALL[1:], [None, mixed_style]),
                (gen, spine_f, VARIANTS_ALL[:2], [None])])
    res.coverage.update({
        "rule": "every (forest shape<=%d states, start state, init chain below it) x hosts; non-trivial = nested "
                "start state or non-empty init chain; spine charts depth 9..%d" % (N, maxd),
        "bounds": {"forest_states_plain_host": N, "forest_states_other_hosts": nh, "spine_depth": maxd},
        "exhaustive": True})
    res.assumptions = ["reference model of 3.3 trusted"]
    return res


def replay(witness):
    return replay_generic(PID, witness)
