"""C03 - start_at enters enclosing states outside-in and follows initial
transitions.  Every forest, every start state, every init chain, all hosts."""
import random
from mc.common import Result, seed
from mc import forests as F
from mc.hsmcheck import sweep, VARIANTS_ALL, mixed_style, replay_generic

SAME_NAME = [("plain", "plain_same_name"), ("instrumented", "spied_same_name")]
PID = "C03"


def gen(parent):
    n = len(parent)
    for S in range(n):
        for chain in F.chains(parent, S):
            init = {chain[i]: chain[i + 1] for i in range(len(chain) - 1)}
            yield ({"parent": parent, "init": init, "react": {}, "start": S, "events": []},
                   len(chain) > 1 or parent[S] >= 0)


def gen_restart(parent):
    """start at S1 (with one event that may move the chart), then start the same chart object again at S2"""
    n = len(parent)
    for S1 in range(n):
        for S2 in range(n):
            for chain in F.chains(parent, S2):
                init = {chain[i]: chain[i + 1] for i in range(len(chain) - 1)}
                if S1 in init:
                    continue        # keep the first start simple: the restart is what is enumerated
                for ev_ in ([], ["A"]):
                    react = {(S1, "A"): ("T", chain[-1])} if ev_ else {}
                    yield ({"parent": parent, "init": init, "react": react, "start": S1, "events": ev_, "restart": S2}, True)


def _nested_work(parents):
    """start_at of one chart from inside an entry action of another chart's start_at (two processor objects)"""
    from mc import charts, refmodel
    from mc.charts import Table, use, new_host, ENTRY, FAMILIES
    from mc.common import BudgetExceeded
    n_runs = 0
    viol = []
    p2 = (-1, 0, 1)
    want2 = [("entry", 0), ("entry", 1), ("entry", 2), ("init", 2)]
    for parent in parents:
        for base, _ in gen(parent):
            log_ref, rest = refmodel.start_at(parent, base["init"], base["start"])
            entered = [x[1] for x in log_ref if x[0] == "entry"]
            for k in entered:
                for host, fam in VARIANTS_ALL:
                    n_runs += 1
                    t2 = Table(p2)
                    t2.S = FAMILIES[fam]
                    kw = {"instrumented": False} if (host == "queued" and fam == "plain") or host == "queued_off" else {}
                    h2 = new_host(host, **kw)
                    h2.mc_table = t2
                    t1 = Table(parent, init=base["init"], act={(k, ENTRY): [("call", lambda chart, h2=h2, t2=t2: h2.start_at(t2.S[2]))]})
                    use(t1, fam)
                    h1 = new_host(host, **kw)
                    try:
                        h1.start_at(t1.S[base["start"]])
                        got1 = [x for x in t1.log if x[0] != "empty"]
                        got2 = [x for x in t2.log if x[0] != "empty"]
                        st1, st2 = charts.config_of(h1), charts.config_of(h2)
                        bad = None
                        if got1 != log_ref or st1 != rest:
                            bad = ("outer", "the chart being started logged %r and rests in %r, expected %r and %r" % (got1, st1, log_ref, rest))
                        elif got2 != want2 or st2 != 2:
                            bad = ("inner", "the chart started from the entry action logged %r and rests in %r, expected %r and 2" % (got2, st2, want2))
                    except (Exception, BudgetExceeded) as e:  # noqa
                        bad = ("exception", "%s: %s" % (type(e).__name__, e))
                    if bad:
                        key = "C03/nested-start/%s" % bad[0]
                        if sum(1 for v in viol if v[0] == key) < 2:
                            viol.append((key, "start_at(%d) of %r/init %r on host %s/%s with the entry action of state %d starting a second chart: %s" % (
                                base["start"], parent, base["init"], host, fam, k, bad[1]),
                                {"nested": True, "parent": list(parent), "init": {str(a): b for a, b in base["init"].items()},
                                 "start": base["start"], "k": k}))
    return n_runs, viol


def nested_part(res, tier):
    from mc.common import pmap, ncpu, Violation
    N = 4 if tier == "quick" else 5
    fl = [f for n in range(1, N + 1) for f in F.forests(n)]
    chunks = [fl[i::ncpu() * 2] for i in range(ncpu() * 2)]
    n = 0
    for runs, viol in pmap(_nested_work, [c for c in chunks if c], ncpu()):
        n += runs
        for key, what, w in viol:
            if sum(1 for x in res.violations if x.key == key) < 2:
                res.add(Violation(key, what, w))
    res.coverage["nested_start_part"] = {"runs": n, "forests_upto": N,
                                         "rule": "every C03 scenario on forests<=%d x every state entered x 5 hosts: that state's entry action starts a "
                                                 "second chart (another processor object); both charts must log and rest as if started alone" % N}
    res.coverage["evaluations"] = res.coverage.get("evaluations", 0) + n
    res.coverage["traces_validated_against_impl"] = res.coverage["evaluations"]


def run(tier):
    res = Result(PID)
    N, nh, maxd = (9, 7, 14) if tier == "quick" else (10, 8, 16)
    rnd = random.Random(seed())
    allf = [f for n in range(1, N + 1) for f in F.forests(n)]
    rnd.shuffle(allf)
    small = [f for f in allf if len(f) <= nh]
    spine_f = [f for d in range(9, maxd + 1) for f in F.spines(d, 1)]
    sweep(res, [(gen, allf, VARIANTS_ALL[:1], [None]),
                (gen, small, VARIANTS_ALL[1:], [None, mixed_style]),
                (gen, spine_f, VARIANTS_ALL[:2], [None]),
                (gen_restart, [f for f in allf if len(f) <= (5 if tier == "quick" else 6)], VARIANTS_ALL, [None]),
                # every state function carries the same __name__ (distinct functions): states are known by identity
                (gen, [f for f in allf if len(f) <= (6 if tier == "quick" else 7)], SAME_NAME, [None])])
    nested_part(res, tier)
    res.coverage.update({
        "rule": "every (forest shape<=%d states, start state, init chain below it) x hosts; non-trivial = nested "
                "start state or non-empty init chain; spine charts depth 9..%d; plus restarts of the same chart object (start at S1, "
                "optionally one transition, start again at S2 with every init chain) on forests<=5/6, all hosts" % (N, maxd),
        "bounds": {"forest_states_plain_host": N, "forest_states_other_hosts": nh, "spine_depth": maxd},
        "exhaustive": True})
    res.assumptions = ["reference model of 3.3 trusted"]
    return res


def replay(witness):
    if witness.get("nested"):
        from mc.common import Violation
        res = Result(PID)
        parent = tuple(witness["parent"])
        runs, viol = _nested_work([parent])
        for key, what, w in viol:
            print(key, what)
            res.add(Violation(key, what, w))
        return res
    return replay_generic(PID, witness)
