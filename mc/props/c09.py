"""C09 - a lifo subscription of an active object puts delivered events at the
front of its pending-event queue (as post_lifo would), a fifo subscription at
the back (as post_fifo would).

The consumer is parked inside a gated handler, so whatever is posted or
delivered stays pending; 0-2 events are already pending; a publisher (the bare
fabric or another active object) publishes 1-2 events while a poster posts one
more event; every schedule to the preemption bound.  Oracle: the deque
operation used for each delivery (front/back) and the dispatch order after the
gate opens, which must be what the same history of post_lifo/post_fifo calls
produces on a reference deque."""
from mc.common import Result, Violation, ToolingError
from mc import sched, aoenv, explore, fabric, aoharness as H
from mc.props.c05 import fill
from miros.event import Event
import miros.activeobject as ao_mod

PID = "C09"
CODES = H.QUEUE_CORE + ["ActiveFabricSource.thread_runner", "ActiveFabricSource.publish"]


class Lifo:
    name = "c09"
    horizon = 6000
    lock_points = False
    fair_k = 80

    def __init__(self, mode="line"):
        self.mode, self._ready = mode, False

    def setup_process(self):
        if not self._ready:
            aoenv.install()
            sched.monitor(H.pick_codes(CODES), self.mode)
            self._ready = True

    def body(self, s, p):
        aoenv.reset()
        gate = sched.CEvent()
        script = {"G": [("call", lambda chart, e: gate.wait())]}
        st = H.make_state(script=script, spied=p.get("spied", True))
        a = H.new_ao("ao", st, start=False)
        if p["when"] == "before":
            for sig, kind in p["subs"]:
                a.subscribe(Event(signal=sig), queue_type=kind)
        a.start_at(st)
        s.settle()
        if p["when"] == "after":
            for sig, kind in p["subs"]:
                a.subscribe(Event(signal=sig), queue_type=kind)
            s.settle()
        other = None
        if p.get("publisher") == "ao":
            other = H.new_ao("other", H.make_state(name="idle2"))
            s.settle()
        a.post_fifo(Event(signal="G", payload="gate"))
        s.settle()                      # the consumer is now inside the handler of G, waiting for the gate
        for k in range(p["pending"]):
            a.post_fifo(Event(signal="A", payload="x%d" % k))
        s.open_window()
        w0 = s.steps

        def publisher():
            for k, sig in enumerate(p["pubs"]):
                e = Event(signal=sig, payload="f%d" % k)
                (other.publish if other is not None else a.fabric.publish)(e)

        def poster():
            a.post_fifo(Event(signal="A", payload="y"))

        sched.CThread(target=publisher, name="publisher").start()
        if p.get("poster"):
            sched.CThread(target=poster, name="poster").start()
        s.settle()
        s.window = False
        pending = [H.label_of(x) for x in a.locking_deque.deque]
        gate.set()
        s.settle()
        ops = [(x[0], x[3], x[4]) for x in H.dq_ops(s, "ao") if x[0] >= w0]
        disp = [x[5] for x in s.log if x[3] == "rtc-begin" and x[4] == "ao" and x[0] >= w0]
        return {"ops": ops, "pending": pending, "dispatched": disp,
                "registry": {k: sorted(v) for k, v in (("fifo", a.fabric.fifo_subscriptions), ("lifo", a.fabric.lifo_subscriptions))},
                "thread_exceptions": [x[:3] for x in s.thread_exceptions]}

    def on_abort(self, s, p):
        return {"threads": [x for x in s.snapshot if not x[2]][:8]}

    def check(self, p, ex):
        if ex.verdict != "done":
            return [("%s/%s" % (PID, ex.verdict), "ended with %s: %r" % (ex.verdict, ex.obs))]
        o = ex.obs
        out = []
        if o["thread_exceptions"]:
            out.append(("%s/exception" % PID, "%r" % (o["thread_exceptions"],)))
        kinds = {}
        for sig, kind in p["subs"]:
            kinds.setdefault(sig, []).append(kind or "fifo")
        # reference deque: the same history as post_fifo/post_lifo calls, in the order the deliveries/posts happened
        ref = ["A/x%d" % k for k in range(p["pending"])]
        seen = {}
        host = "ao-publisher" if p.get("publisher") == "ao" else "fabric"
        for (step, op, lab) in o["ops"]:
            if op not in ("append", "appendleft"):
                continue
            sig = lab.split("/")[0]
            if lab.split("/")[1].startswith("f"):        # a delivery
                n = seen.get(lab, 0)
                seen[lab] = n + 1
                ks = kinds.get(sig, [])
                if not ks:
                    out.append(("%s/stray-delivery" % PID, "%s delivered although not subscribed" % lab))
                    continue
                if len(ks) == 1:
                    want = "appendleft" if ks[0] == "lifo" else "append"
                    if op != want:
                        out.append(("%s/%s-delivery/placed=%s" % (PID, ks[0], "back" if op == "append" else "front"),
                                    "event %s of a %s subscription was placed with %s (pending then: see ops %r)" % (lab, ks[0], op, o["ops"])))
                    (ref.insert(0, lab) if want == "appendleft" else ref.append(lab))
                else:
                    # subscribed both ways: one copy at each end, in whichever order the two delivery threads come
                    (ref.insert(0, lab) if op == "appendleft" else ref.append(lab))
            else:
                ref.append(lab)
        for sig, ks in kinds.items():
            for lab in ["%s/f%d" % (s_, k) for k, s_ in enumerate(p["pubs"]) if s_ == sig]:
                if seen.get(lab, 0) != len(ks):
                    out.append(("%s/delivery-count" % PID, "%s delivered %d times for subscriptions %r" % (lab, seen.get(lab, 0), ks)))
                if len(ks) == 2:
                    opsl = sorted(op for (_, op, l) in o["ops"] if l == lab and op in ("append", "appendleft"))
                    if opsl != ["append", "appendleft"]:
                        out.append(("%s/both-kinds/placed" % PID, "%s subscribed fifo and lifo was placed with %r" % (lab, opsl)))
        if not out and o["pending"] != ref:
            out.append(("%s/pending-order" % PID, "pending queue %r, reference deque %r" % (o["pending"], ref)))
        if not out and o["dispatched"] != ref:
            out.append(("%s/dispatch-order" % PID, "dispatched %r, reference deque %r" % (o["dispatched"], ref)))
        return out


def params(tier):
    q = tier == "quick"
    ps = []
    for kind in ("lifo", "fifo", None):
        for pending in (0, 1, 2):
            for pubs in (["P"], ["P", "P"]):
                if q and pending == 0 and len(pubs) == 1:
                    continue
                ps.append({"subs": [("P", kind)], "when": "before", "pending": pending, "pubs": pubs,
                           "poster": pending == 1, "bound": 1})
    ps.append({"subs": [("P", "lifo")], "when": "after", "pending": 2, "pubs": ["P"], "poster": True, "bound": 1 if q else 2})
    ps.append({"subs": [("P", "lifo"), ("Q", "fifo")], "when": "before", "pending": 1, "pubs": ["P", "Q"], "poster": False, "bound": 1 if q else 2})
    ps.append({"subs": [("P", "lifo"), ("P", "fifo")], "when": "before", "pending": 2, "pubs": ["P"], "poster": False, "bound": 1 if q else 2})
    ps.append({"subs": [("P", "lifo")], "when": "before", "pending": 2, "pubs": ["P", "P"], "poster": True, "publisher": "ao", "bound": 1})
    ps.append({"subs": [("P", "lifo")], "when": "before", "pending": 1, "pubs": ["P"], "poster": False, "spied": False, "bound": 1})
    if not q:
        ps.append({"subs": [("P", "lifo")], "when": "before", "pending": 2, "pubs": ["P", "P"], "poster": True, "bound": 2})
        ps.append({"subs": [("P", "fifo")], "when": "before", "pending": 2, "pubs": ["P", "P"], "poster": True, "bound": 2})
    return ps


def run(tier):
    res = Result(PID)
    bound = 2
    st = explore.explore(Lifo("line"), params(tier), bound)
    ix = None
    if tier != "quick":
        ix = explore.extra(st, explore.hybrid(Lifo("instr")), [dict(p, bound=2.015) for p in params(tier)[:6]], 2.015, 900,
                           "first 6 parameter sets at instruction granularity, two preemptions of which at most one inside a source line")
    fill(res, st, bound, "line", "; consumer parked in a gated handler, 0-2 pending events, fifo/lifo/default/both subscriptions made "
         "before or after start, 1-2 publications by the fabric or by another active object, one racing post_fifo; per-parameter bound 1-2")
    if ix:
        res.coverage["instruction_extra"] = ix
    if len(st.outcomes) < 2 and not res.violations:
        raise ToolingError("harness did not collide")
    res.assumptions = ["front = the end the consumer takes from (popleft), as post_lifo uses it"]
    return res


def replay(w):
    res = Result(PID)
    ex, v = explore.replay(Lifo("line"), w)
    print(ex.verdict, ex.obs)
    for key, what in v:
        res.add(Violation(key, what, w))
    return res
