"""C14 - queued charts dispatch posted events in deque order, one per step.
BFS over {post_fifo(x), post_lifo(x), next_rtc, complete_circuit}; handling B
posts A fifo, C posts A lifo, F posts B lifo and C fifo - from inside the step; the handlers of G (after
posting A) and H raise: the exception reaches the caller, the event is consumed,
the rest stays queued."""
from mc.common import Result
from mc import queued

PID = "C14"
ALPHA = [("post_fifo", x) for x in "ABCFGT"] + [("post_lifo", x) for x in "ABCFHT"] + [("post_same", "A")] + [("next_rtc",), ("complete_circuit",)]


def run(tier):
    res = Result(PID)
    depth = 6 if tier == "quick" else 7
    queued.run_bfs(res, PID, ALPHA, depth)
    res.coverage["rule"] = ("BFS over operation sequences of depth <= %d over %r on a real HsmWithQueues chart (spied and plain "
                            "states) vs a list; states = distinct queue contents; every transition compares return value, "
                            "dispatch log and queue contents" % (depth, ALPHA))
    res.assumptions = ["events with the same signal are interchangeable", "capacity 500 is never reached (C16 covers overflow)"]
    return res


def replay(w):
    return queued.replay(PID, w)
