"""C30 - singletons stay single even when first requested concurrently.
For each of the five decorated classes 2-3 threads make the first request at
once; every schedule to the preemption bound at line (quick) / instruction
(thorough) granularity of SingletonDecorator.__call__ and the constructors."""
from mc.common import Result, Violation, ToolingError
from mc import sched, aoenv, explore
from mc.props.c05 import fill
import miros.singleton as singleton
import miros.activeobject as ao
import miros.event as mevent

PID = "C30"
TARGETS = {
    "ActiveFabric": lambda: ao.ActiveFabric,
    "FiberThreadEvent": lambda: ao.FiberThreadEvent,
    "InstrumentionWriter": lambda: ao.InstrumentionWriter,
    "Signal(fresh decorator)": lambda: singleton.SingletonDecorator(mevent.SignalSource),
    "ReturnStatus(fresh decorator)": lambda: singleton.SingletonDecorator(mevent.ReturnStatusSource),
    "ActiveFabric(fresh decorator)": lambda: singleton.SingletonDecorator(ao.ActiveFabricSource),
}


class First:
    name = "c30-first-request"
    horizon = 3000

    def __init__(self, mode):
        self.mode, self._ready = mode, False

    def setup_process(self):
        if not self._ready:
            aoenv.install()
            codes = sched.code_objects_of(singleton)
            codes += sched.code_objects_of(ao.ActiveFabricSource.__init__, ao.InstrumenationWriterClass.__init__)
            # the module-level callables themselves (a SingletonDecorator instance, or whatever they were turned into:
            # a cached factory function has code of its own)
            for name in ("ActiveFabric", "FiberThreadEvent", "InstrumentionWriter"):
                obj = getattr(ao, name, None)
                if obj is not None:
                    codes += sched.code_objects_of(obj)
            codes = list(dict.fromkeys(codes))
            sched.monitor(codes, self.mode)
            self._ready = True

    def body(self, s, p):
        aoenv.reset()
        dec = TARGETS[p["target"]]()
        if hasattr(dec, "cache_clear"):
            dec.cache_clear()       # a memoising factory instead of a decorator object: forget what earlier executions built
        else:
            dec.instance = None
        aoenv.fix_singleton_locks()
        aoenv.fresh_locks(dec)      # a fresh decorator may have made itself a real lock
        got = {}
        s.open_window()

        def req(i):
            got[i] = dec()

        for i in range(p["threads"]):
            sched.CThread(target=req, args=(i,), name="req%d" % i).start()
        s.settle()
        later = dec()
        ids = [id(got.get(i)) for i in range(p["threads"])]
        return {"distinct_objects": len(set(ids)), "later_is_first": all(got.get(i) is later for i in range(p["threads"])),
                "all_returned": len(got) == p["threads"], "thread_exceptions": [x[:3] for x in s.thread_exceptions]}

    def check(self, p, ex):
        if ex.verdict != "done":
            return [("C30/%s" % ex.verdict, "execution ended with %s" % ex.verdict)]
        o = ex.obs
        out = []
        if o["thread_exceptions"] or not o["all_returned"]:
            out.append(("C30/exception", "a requesting thread died: %r" % (o["thread_exceptions"],)))
        if o["distinct_objects"] != 1 or not o["later_is_first"]:
            out.append(("C30/two-instances", "%d threads requesting %s at once got %d distinct objects (later request returns the same as all: %s)" % (
                p["threads"], p["target"], o["distinct_objects"], o["later_is_first"])))
        return out


def run(tier):
    res = Result(PID)
    q = tier == "quick"
    ps = [{"target": t, "threads": 2} for t in TARGETS] + [{"target": "ActiveFabric", "threads": 3},
                                                           {"target": "Signal(fresh decorator)", "threads": 3}]
    bound = 2 if q else 3
    st = explore.explore(First("line" if q else "instr"), ps, bound)
    fill(res, st, bound, "line" if q else "instruction")
    res.assumptions = ["Signal() and ReturnStatus() are first requested at import in a real process; the check exercises fresh "
                       "decorators of those classes (the decorator's guarantee, not the import system's)"]
    return res


def replay(w):
    res = Result(PID)
    ex, v = explore.replay(First("line"), w)
    print(ex.verdict, ex.obs)
    for key, what in v:
        res.add(Violation(key, what, w))
    return res
