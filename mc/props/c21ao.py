"""C21 on an active object: live lines travel through the InstrumentionWriter
thread; run under the controlled scheduler (default schedule and, for a few
charts, every schedule with one preemption between the object's thread and the
writer thread)."""
from mc.common import Violation, pmap, ncpu, Result
from mc import sched, aoenv, explore, hsmrun, charts, instr, forests as F, aoharness as H
from mc.charts import Table, use, SIG, ev
from mc.props import c01, c02
import miros.activeobject as ao_mod

PID = "C21"


class AoLive:
    name = "c21-ao"
    horizon = 20000
    lock_points = False
    fair_k = 200

    def __init__(self, monitor=False):
        self._ready, self.mon = False, monitor

    def setup_process(self):
        if not self._ready:
            aoenv.install()
            if self.mon:
                sched.monitor(H.pick_codes(["InstrumenationWriterClass.", "ActiveObject.run_event", "ActiveObject.register_live"]), "line")
            else:
                sched.unmonitor()
            self._ready = True

    def body(self, s, p):
        aoenv.reset()
        spec = hsmrun.norm(p["spec"])
        instr.install_clock(p.get("clock", "inc"))
        react = {(i, SIG[n]): v for (i, n), v in spec["react"].items()}
        t = Table(spec["parent"], init=spec["init"], react=react, budget=20000)
        use(t, "spied")
        a = ao_mod.ActiveObject(name="ao")
        a.live_spy, a.live_trace = True, True
        spy_lines, trace_lines = [], []
        a.register_live_spy_callback(spy_lines.append)
        a.register_live_trace_callback(trace_lines.append)
        steps = []
        seen = []

        def obs():
            now = list(a.full.trace)
            new = [r for r in now if not any(r is x for x in seen)]
            seen[:] = now
            o = {"spy_rtc": list(a.rtc.spy), "trace_new": [(r.datetime, r.start_state, r.signal, r.end_state) for r in new],
                 "live_spy": list(spy_lines), "live_trace": list(trace_lines)}
            del spy_lines[:]
            del trace_lines[:]
            return o
        a.start_at(t.S[spec["start"]])
        if p.get("window"):
            s.open_window()
        s.settle()
        steps.append(obs())
        for name in spec["events"]:
            instr.Clock.next_step()
            a.post_fifo(ev(name))
            s.settle()
            steps.append(obs())
        return {"steps": steps, "thread_exceptions": [x[:3] for x in s.thread_exceptions]}

    def on_abort(self, s, p):
        return {"threads": [x for x in s.snapshot if not x[2]][:8], "thread_exceptions": [x[:3] for x in s.thread_exceptions]}

    def check(self, p, ex):
        return [(k, w) for k, w in judge(p, ex)]


def judge(p, ex):
    if isinstance(ex, str):
        return [("%s/ao/exception" % PID, ex)]
    if ex.verdict != "done":
        return [("%s/ao/%s" % (PID, ex.verdict), "ended with %s: %r" % (ex.verdict, ex.obs))]
    o = ex.obs
    out = []
    ck = p.get("clock", "inc")
    if o["thread_exceptions"]:
        out.append(("%s/ao/exception" % PID, "a thread died: %r" % (o["thread_exceptions"],)))
    for k, st in enumerate(o["steps"]):
        # the step's log ends with the queue reflection; the marker of the *external* post that triggers the next step is
        # written by the posting thread and may land behind it (that is not a line of this step)
        cut = max([i for i, l in enumerate(st["spy_rtc"]) if l.startswith("<- Queued")] or [len(st["spy_rtc"]) - 1])
        st["spy_rtc"] = st["spy_rtc"][:cut + 1]
        if st["live_spy"] != st["spy_rtc"]:
            out.append(("%s/ao/live-spy" % PID, "step %d: writer delivered %r, the step's spy is %r" % (k, st["live_spy"], st["spy_rtc"])))
            break
        want = []
        for rec in st["trace_new"]:
            rec = tuple(rec)
            line = instr.fmt_trace(rec, "ao")
            want.append(line if k == 0 else "\n" + line)
        if st["live_trace"] != want:
            cls = "missing" if len(st["live_trace"]) < len(want) else ("repeated" if len(st["live_trace"]) > len(want) else "content")
            out.append(("%s/ao/live-trace/%s/clock=%s" % (PID, cls, "fine" if ck == "inc" else "coarse"),
                        "step %d (clock %s): writer delivered trace lines %r, new records render as %r" % (k, ck, st["live_trace"], want)))
            break
    return out


def work(ps):
    h = AoLive()
    h.setup_process()
    out = []
    for p in ps:
        try:
            ex = explore.run_execution(h, p, ())
        except Exception as e:  # noqa
            ex = "%s: %s" % (type(e).__name__, e)
        out.append((p, judge(p, ex)))
    return out


def run_into(res, tier):
    N = 3 if tier == "quick" else 4
    ps = []
    for n in range(1, N + 1):
        for f in F.forests(n):
            for gen in (c01.gen, c02.gen):
                for base, _ in gen(f):
                    for ck in ("inc", "every8", "step2", "frozen"):
                        ps.append({"spec": hsmrun.dump(hsmrun.norm(dict(base, events=["A", "A", "A"]))), "clock": ck})
    jobs = ncpu()
    chunks = [ps[i::jobs * 4] for i in range(jobs * 4)]
    outs = pmap(work, [c for c in chunks if c], jobs)
    n = 0
    for part in outs:
        for p, v in part:
            n += 1
            for key, what in v:
                if sum(1 for x in res.violations if x.key == key) < 2:
                    res.add(Violation(key, what, {"ao": True, "spec": p["spec"], "clock": p["clock"]}))
    # a few charts with every 1-preemption schedule between the object's thread and the writer thread
    racy = [{"spec": hsmrun.dump(hsmrun.norm({"parent": (-1, 0), "init": {}, "react": {(1, "A"): ("T", 0), (0, "A"): ("T", 1)},
                                               "start": 1, "events": ["A", "A"]})), "clock": ck, "window": True, "bound": 1}
            for ck in ("inc", "frozen")]
    st = explore.explore(AoLive(monitor=True), racy, 1)
    for key, what, w in st.violations:
        res.add(Violation(key, what, dict(w, ao_race=True)))
    cov = res.coverage
    cov["ao_part"] = {"executions": n, "forests_upto": N, "clock_scripts": ["inc", "every8", "step2", "frozen"],
                      "preemption_bounded_executions": st.executions,
                      "rule": "3-step C01/C02 scenarios on a real spied ActiveObject with live spy and live trace on; the lines pass "
                              "through the real InstrumentionWriter thread under the controlled scheduler"}
    cov["evaluations"] = cov.get("evaluations", 0) + n + st.executions
    cov["traces_validated_against_impl"] = cov["evaluations"]


def replay(w):
    res = Result(PID)
    if w.get("ao_race"):
        ex, v = explore.replay(AoLive(monitor=True), w)
        for key, what in v:
            res.add(Violation(key, what, w))
        return res
    for _, v in work([{"spec": w["spec"], "clock": w["clock"]}]):
        for key, what in v:
            print(key, what)
            res.add(Violation(key, what, w))
    return res
