"""C19 - the spy log records exactly the state invocations the processor made.

Oracle = the handlers' own nested invocation log: every call the processor
makes to a state function (with which signal), what it returned, and the user
actions (posts, defers, recalls, scribbles) performed in between; from it the
expected per-step spy is START (start_at only), one line per invocation,
`:HOOK` after an offer that returned HANDLED, the action markers in place, the
queue reflection last (queued hosts).  The full spy must be the concatenation
of the step logs cut to the ring size (ring sizes reduced in one plan so that
truncation happens inside the bound)."""
import random
from mc.common import Result, Violation, seed
from mc import forests as F, instrcheck, instr, hsmrun
from mc.props import c01, c02, c03

PID = "C19"


def variants(rings=None):
    vs = [{"host": "instrumented", "family": "spied"},
          {"host": "queued", "family": "spied", "drive": "dispatch"},
          {"host": "queued", "family": "spied", "drive": "queue"},
          {"host": "queued", "family": "spied", "drive": "queue", "live_spy": True, "live_trace": True},
          {"host": "queued", "family": "spied", "drive": "queue", "clear_after": 1},
          {"host": "queued", "family": "spied", "drive": "dispatch", "clear_after": 0}]
    if rings:
        vs = [dict(v, rings=rings) for v in vs]
    return vs


def run(tier):
    res = Result(PID)
    N, NA = (6, 4) if tier == "quick" else (7, 5)
    rnd = random.Random(seed())
    allf = [f for n in range(1, N + 1) for f in F.forests(n)]
    rnd.shuffle(allf)
    small = [f for f in allf if len(f) <= NA]
    tiny = [f for f in allf if len(f) <= 4]
    spine = [f for d in (9, 10) for f in F.spines(d, 0)]
    instrcheck.sweep(res, [(c01.gen, allf, variants(), "spy", None),
                           # a user signal whose name ends like the built-in ones
                           (instrcheck._ren_c01, tiny, variants()[:3], "spy", None),
                           (instrcheck._ren_c02, tiny, variants()[:3], "spy", None),
                           (c02.gen, allf, variants(), "spy", None),
                           (c03.gen, allf, variants(), "spy", None),
                           (instrcheck.gen_act, small, variants()[1:], "spy", None),
                           # small rings: per-step ring 6, full ring 10 - truncation inside the bound
                           (c01.gen, tiny, variants((10, 500, 6)), "spy", None),
                           (instrcheck.gen_act, [f for f in tiny if len(f) <= 3], variants((10, 500, 6))[1:], "spy", None),
                           (c01.gen, spine, variants()[:2], "spy", None)])
    res.coverage.update({
        "rule": "scenario families of C01/C02/C03 on forests<=%d (+ spines of depth 9-10), handler-script charts (post/defer/"
                "recall/scribble from signal, entry, exit and init handlers) on forests<=%d, instrumented and queued hosts, "
                "dispatch and post+next_rtc drive, default ring sizes and rings (spy 10, per-step 6); per step the spy is "
                "compared line by line with the handlers' own invocation log, spy() with the concatenation" % (N, NA),
        "exhaustive": True})
    res.assumptions = ["external posts made between steps are not part of a step's log (the property speaks of markers made during a step)"]
    return res


def replay(w):
    from mc.props import c18
    r = c18.replay(w)
    r.pid = PID
    for v in r.violations:
        v.key = v.key.replace("C18/", "C19/", 1)
    return r
