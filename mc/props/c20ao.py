"""C20 on an active object: the trace of a real ActiveObject whose own thread
dispatches the events, including the meta events the object posts to itself
when subscribe()/publish() are called before start_at."""
from mc.common import Violation, pmap, ncpu, Result
from mc import sched, aoenv, explore, hsmrun, charts, instr, forests as F
from mc.charts import Table, use, SIG, ev
from mc.props import c01, c02
from miros.event import Event
import miros.activeobject as ao_mod

PID = "C20"
PRE = [(), (("subscribe", "B"),), (("publish", "C"),), (("subscribe", "B"), ("publish", "B")), (("post_fifo", "A"),)]


class AoTrace:
    name = "c20-ao"
    horizon = 20000
    lock_points = False
    fair_k = 10 ** 9

    def __init__(self):
        self._ready = False

    def setup_process(self):
        if not self._ready:
            aoenv.install()
            sched.unmonitor()
            self._ready = True

    def body(self, s, p):
        aoenv.reset()
        spec = hsmrun.norm(p["spec"])
        instr.install_clock(p.get("clock", "inc"))
        react = {(i, SIG[n]): v for (i, n), v in spec["react"].items()}
        t = Table(spec["parent"], init=spec["init"], react=react, budget=20000)
        t.raw = []
        use(t, "spied")
        a = ao_mod.ActiveObject(name=None if p.get("unnamed") else "ao")
        live = []
        a.live_trace = bool(p.get("live_trace"))
        a.register_live_trace_callback(live.append)
        a.register_live_spy_callback(lambda l: None)
        for op in p["pre"]:
            if op[0] == "subscribe":
                a.subscribe(Event(signal=SIG[op[1]]))
            elif op[0] == "publish":
                a.publish(Event(signal=SIG[op[1]]))
            elif op[0] == "post_fifo":
                a.post_fifo(ev(op[1]))
        names = []

        def note_names():
            try:
                cur = charts.config_of(a)
            except Exception:  # noqa
                cur = "?"
            fn = t.S[cur] if isinstance(cur, int) and cur >= 0 else None
            sf = getattr(a, "state_fn", None)
            names.append({"config": charts.name_of(cur) if isinstance(cur, int) else cur, "state_name": getattr(a, "state_name", None),
                          "state_fn_ok": fn is not None and (sf is fn or sf is getattr(fn, "__wrapped__", fn)),
                          "current_state": a.current_state()})
        a.start_at(t.S[spec["start"]])
        s.settle()
        note_names()
        for name in spec["events"]:
            a.post_fifo(ev(name))
            s.settle()
            note_names()
        recs = [(r.datetime, r.start_state, r.signal, r.end_state) for r in a.full.trace]
        try:
            text = a.trace()
            err = None
        except Exception as e:  # noqa
            text, err = None, "%s: %s" % (type(e).__name__, e)
        # what happened, from the handlers' own log: the configuration after start and every (signal, TRAN) step
        return {"records": [(x[1], x[2], x[3]) for x in recs], "no_timestamp": sum(1 for x in recs if x[0] is None),
                "raw": list(t.raw), "text": text, "text_error": err, "names": names,
                "rendered": None if any(x[0] is None for x in recs) else "\n" + "".join(instr.fmt_trace(x, a.name) for x in recs),
                "live": list(live), "thread_exceptions": [x[:3] for x in s.thread_exceptions]}

    def on_abort(self, s, p):
        return {"threads": [x for x in s.snapshot if not x[2]][:8], "thread_exceptions": [x[:3] for x in s.thread_exceptions]}

    def check(self, p, ex):
        return []


def expected_records(p):
    """reference model: start record, then one record per step that is a transition; the pre-start operations
    add steps: a pre-start post of A is dispatched first, meta events and delivered publications never transition
    (B and C are not handled by these charts)"""
    from mc import refmodel
    spec = hsmrun.norm(p["spec"])
    parent, init, react = spec["parent"], spec["init"], spec["react"]
    log, c = refmodel.start_at(parent, init, spec["start"])
    out = [("top", None, charts.name_of(c))]
    events = [op[1] for op in p["pre"] if op[0] == "post_fifo"] + list(spec["events"])
    for name in events:
        _, _, c2, kind = refmodel.step(parent, init, react, c, name)
        if kind == "tran":
            out.append((charts.name_of(c), name, charts.name_of(c2)))
        c = c2
    return out


def judge(p, ex):
    if isinstance(ex, str):
        return [("%s/ao/exception" % PID, ex)]
    if ex.verdict != "done":
        return [("%s/ao/%s" % (PID, ex.verdict), "ended with %s: %r" % (ex.verdict, ex.obs))]
    o = ex.obs
    out = []
    pre = "+".join(op[0] for op in p["pre"]) or "none"
    if o["thread_exceptions"]:
        out.append(("%s/ao/exception" % PID, "a thread died: %r" % (o["thread_exceptions"],)))
    want = expected_records(p)
    got = [tuple(x) for x in o["records"]]
    if got != want:
        cls = "extra" if len(got) > len(want) else ("missing" if len(got) < len(want) else "fields")
        out.append(("%s/ao/trace/%s/pre=%s" % (PID, cls, pre), "trace records %r, expected %r (operations before start_at: %r)" % (got, want, p["pre"])))
    if o["no_timestamp"]:
        out.append(("%s/ao/trace/no-timestamp/pre=%s" % (PID, pre), "%d records without a timestamp: %r" % (o["no_timestamp"], got)))
    if o["text_error"]:
        out.append(("%s/ao/trace/text-raises/pre=%s" % (PID, pre), "trace() raised %s (operations before start_at: %r)" % (o["text_error"], p["pre"])))
    elif o["rendered"] is not None and o["text"] != o["rendered"]:
        out.append(("%s/ao/trace/text" % PID, "trace() %r, records render as %r" % (o["text"], o["rendered"])))
    return out


def work(ps):
    h = AoTrace()
    h.setup_process()
    out = []
    for p in ps:
        try:
            ex = explore.run_execution(h, p, ())
        except Exception as e:  # noqa
            ex = "%s: %s" % (type(e).__name__, e)
        out.append((p, judge(p, ex)))
    return out


def run_into(res, tier):
    N = 3 if tier == "quick" else 4
    ps = []
    for n in range(1, N + 1):
        for f in F.forests(n):
            for gen in (c01.gen, c02.gen):
                for base, _ in gen(f):
                    for pre in PRE:
                        ps.append({"spec": hsmrun.dump(hsmrun.norm(base)), "pre": [list(x) for x in pre]})
                    ps.append({"spec": hsmrun.dump(hsmrun.norm(base)), "pre": [], "unnamed": True})
    jobs = ncpu()
    chunks = [ps[i::jobs * 4] for i in range(jobs * 4)]
    outs = pmap(work, [c for c in chunks if c], jobs)
    n = 0
    for part in outs:
        for p, v in part:
            n += 1
            for key, what in v:
                if sum(1 for x in res.violations if x.key == key) < 2:
                    res.add(Violation(key, what, {"ao": True, "spec": p["spec"], "pre": p["pre"]}))
    cov = res.coverage
    cov["ao_part"] = {"executions": n, "forests_upto": N, "pre_start_operation_lists": len(PRE),
                      "rule": "C01/C02 scenario families on a real spied ActiveObject under the controlled scheduler, with "
                              "subscribe/publish/post calls made before start_at; trace records vs reference model"}
    cov["evaluations"] = cov.get("evaluations", 0) + n
    cov["traces_validated_against_impl"] = cov["evaluations"]


def replay(w):
    res = Result(PID)
    for _, v in work([{"spec": w["spec"], "pre": w["pre"]}]):
        for key, what in v:
            print(key, what)
            res.add(Violation(key, what, w))
    return res
