"""All unordered rooted forests with n states (= rooted trees with n+1 nodes,
the extra root being miros' `top`), one canonical representative per shape
(Beyer-Hedetniemi level sequences).  A forest is a tuple `parent` of length n:
parent[i] is the index of the enclosing state or -1 for top; parent[i] < i
(preorder numbering)."""
from functools import lru_cache

COUNTS = {1: 1, 2: 2, 3: 4, 4: 9, 5: 20, 6: 48, 7: 115, 8: 286, 9: 719, 10: 1842}


def _level_sequences(n):
    L = list(range(1, n + 1))
    while True:
        yield tuple(L)
        p = None
        for i in range(n - 1, 0, -1):
            if L[i] > 2:
                p = i
                break
        if p is None:
            return
        q = p - 1
        while L[q] != L[p] - 1:
            q -= 1
        d = p - q
        for i in range(p, n):
            L[i] = L[i - d]


@lru_cache(maxsize=None)
def forests(n):
    out = []
    for L in _level_sequences(n + 1):
        par = []
        for i in range(1, n + 1):
            j = i - 1
            while L[j] != L[i] - 1:
                j -= 1
            par.append(j - 1)  # node 0 is top -> -1
        out.append(tuple(par))
    if n in COUNTS:
        assert len(out) == COUNTS[n], (n, len(out))
    return tuple(out)


def path(parent, s):
    """s and its ancestors, innermost first (top excluded)."""
    out = []
    while s >= 0:
        out.append(s)
        s = parent[s]
    return out


def depth(parent, s):
    return len(path(parent, s))


def descendants(parent, s):
    """proper descendants of s (s == -1: every state)."""
    n = len(parent)
    out = []
    for x in range(n):
        y = parent[x]
        while y >= 0 and y != s:
            y = parent[y]
        if y == s and x != s:
            out.append(x)
    return out


def children(parent, s):
    return [x for x in range(len(parent)) if parent[x] == s]


def chains(parent, t):
    """every chain of initial transitions starting at t: tuples (t0=t, t1, ..)
    with t_{k+1} a proper descendant of t_k; the 1-tuple (t,) means no init."""
    yield (t,)
    for d in descendants(parent, t):
        for rest in chains(parent, d):
            yield (t,) + rest


def spines(depth_, branches):
    """chains of `depth_` nested states with up to `branches` extra leaf
    children hung at every possible level (deep charts for buffer growth)."""
    base = [-1] + list(range(depth_ - 1))
    out = [tuple(base)]
    if branches >= 1:
        for a in range(-1, depth_):
            out.append(tuple(base + [a]))
            if branches >= 2:
                for b in range(a, depth_):
                    out.append(tuple(base + [a, b]))
    return out
