"""setup_cmd self-test: the engines must catch what they are supposed to catch."""
import sys, os, json
sys.path.insert(0, os.path.dirname(os.path.dirname(os.path.abspath(__file__))))


def engine_a():
    from mc import hsmrun, forests
    assert len(forests.forests(5)) == 20
    spec = hsmrun.norm({"parent": [-1, 0, 1], "init": {0: 2}, "react": {(1, "A"): ("T", 0)},
                        "start": 0, "events": ["A"]})
    impl, ref = hsmrun.run_impl(spec), hsmrun.run_ref(spec)
    assert hsmrun.first_diff(impl, ref) is None, (impl, ref)
    # a deliberately wrong reference must be noticed
    ref[1]["log"] = ref[1]["log"][:-1]
    assert hsmrun.first_diff(impl, ref) is not None


def main():
    engine_a()
    from mc import selftest_b, conform
    selftest_b.main()
    print("stand-in conformance ok: %d operation sequences" % conform.main())
    print("selftest ok")


if __name__ == "__main__":
    try:
        main()
    finally:
        from mc import common
        common.cleanup_scratch()
