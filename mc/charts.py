"""Table-driven statecharts for Engine A.

A chart is data (`Table`): parent map, init map, reactions, handler scripts.
Ten module-level state functions per *family* read that data, so one family
serves every chart.  Families: 'plain' (undecorated functions), 'spied' (the
same under miros' spy decorator).  Handlers log every invocation the processor
makes into `T.log` - that log is the observable the oracles compare."""
from mc.common import load_miros, BudgetExceeded
load_miros()
import miros.hsm as hsm                       # noqa: E402
from miros.event import signals, return_status, Event   # noqa: E402

NSTATES = 64      # the deep two-chain charts of C20 use 61
USER = ["A", "B", "C", "D", "E", "F", "G", "H", "T", "U_SIGNAL"]    # U_SIGNAL: a user signal named like the built-in ones
for _n in USER:
    signals.append(_n)
SIG = {n: signals[n] for n in USER}
SIGNAME = {v: k for k, v in SIG.items()}
ENTRY, EXIT, INIT = signals.ENTRY_SIGNAL, signals.EXIT_SIGNAL, signals.INIT_SIGNAL
REFLECT = signals.REFLECTION_SIGNAL
EMPTY, SUPERSIG = signals.EMPTY_SIGNAL, signals.SEARCH_FOR_SUPER_SIGNAL
HANDLED, UNHANDLED = return_status.HANDLED, return_status.UNHANDLED
SUPER, TRAN, IGNORED = return_status.SUPER, return_status.TRAN, return_status.IGNORED
KIND = {ENTRY: "entry", EXIT: "exit", INIT: "init"}


class Table:
    """The chart data the state functions read."""

    def __init__(self, parent, init=None, react=None, style=None, act=None,
                 none_state=None, none_mode="all", budget=20000):
        self.parent = parent
        self.n = len(parent)
        self.init = init or {}              # state -> init target state
        self.react = react or {}            # (state, signal number) -> ('H',)|('T',j)|('D',)
        self.style = style                  # per state bitmask 1=entry 2=exit 4=init explicitly HANDLED
        self.act = act or {}                # (state, signal number) -> [(action, arg), ...]
        self.none_state = none_state        # that state's handler returns None ...
        self.none_mode = none_mode          # ... 'all': for every signal; 'user': for user signals only
        self.S = None                       # the family's function list
        self.log = []
        self.calls = 0
        self.budget = budget
        self.user_log = []                  # actions performed by handler scripts
        self.raw = None                     # list: nested invocation log (only when a check asks for it)


T = None  # the chart currently under the processor (one per process at a time)


def use(table, family):
    global T
    table.S = FAMILIES[family]
    T = table
    return table


def _do_actions(chart, acts, i):
    for a in acts:
        op = a[0]
        T.user_log.append((op,) + tuple(a[1:]) + (i,))
        if T.raw is not None:
            if op == "recall":
                dq = chart.defer_queue
                T.raw.append(("act", "recall", dq[0].signal_name if len(dq) else None))
            else:
                T.raw.append(("act",) + tuple(a))
        if op == "post_fifo":
            chart.post_fifo(Event(signal=SIG[a[1]]))
        elif op == "post_lifo":
            chart.post_lifo(Event(signal=SIG[a[1]]))
        elif op == "defer":
            chart.defer(Event(signal=SIG[a[1]]))
        elif op == "recall":
            chart.recall()
        elif op == "scribble":
            chart.scribble(a[1])
        elif op == "mark":
            pass
        elif op == "clear_spy":
            chart.clear_spy()           # a handler wipes the full spy in the middle of its step
        elif op == "current_state":
            chart.current_state()       # a handler asking where the chart is (a reflection pass through the leaf state)
        elif op == "raise":
            raise {"IndexError": IndexError, "KeyError": KeyError, "RuntimeError": RuntimeError}[a[1]]("raised by the handler")
        elif op == "call":
            a[1](chart)
        else:
            raise AssertionError(op)


def _h(i, chart, e):
    t = getattr(chart, "mc_table", None) or T
    raw = t.raw
    if raw is None:
        return _h0(t, i, chart, e)
    # the harness's own nested invocation log (oracle of C19-C21): every call the processor makes, what it returned,
    # and the user actions performed in between
    raw.append(("call", e.signal, i))
    r = _h0(t, i, chart, e)
    raw.append(("ret", e.signal, i, r))
    return r


def _h0(t, i, chart, e):
    t.calls += 1
    if t.calls > t.budget:
        raise BudgetExceeded("handler budget")
    if t.none_state == i and (t.none_mode == "all" or e.signal > 10):
        t.log.append(("none", i, e.signal))
        return None
    sig = e.signal
    if sig == ENTRY or sig == EXIT:
        t.log.append((KIND[sig], i))
        acts = t.act.get((i, sig))
        if acts:
            _do_actions(chart, acts, i)
        st = t.style
        if st is None or st[i] & (1 if sig == ENTRY else 2):
            return HANDLED
    elif sig == INIT:
        t.log.append(("init", i))
        acts = t.act.get((i, sig))
        if acts:
            _do_actions(chart, acts, i)
        j = t.init.get(i)
        if j is not None:
            return chart.trans(t.S[j])
        st = t.style
        if st is None or st[i] & 4:
            return HANDLED
    elif sig > 10:
        r = t.react.get((i, sig))
        t.log.append((SIGNAME.get(sig, sig), i))
        if r is not None:
            acts = t.act.get((i, sig))
            if acts:
                _do_actions(chart, acts, i)
            k = r[0]
            if k == "H":
                return HANDLED
            if k == "T":
                return chart.trans(t.S[r[1]])
            if k == "D":
                return UNHANDLED
            raise AssertionError(k)
    elif sig == EMPTY:
        t.log.append(("empty", i))
    p = t.parent[i]
    chart.temp.fun = chart.top if p < 0 else t.S[p]
    return SUPER


def _make_family(decorate):
    fns = []
    for i in range(NSTATES):
        ns = {"_h": _h}
        exec("def s%d(chart, e):\n  return _h(%d, chart, e)\n" % (i, i), ns)
        fn = ns["s%d" % i]
        fns.append(decorate(fn) if decorate else fn)
    return fns


def _make_family_same_name(decorate):
    """every state function is called `idle` (distinct functions, e.g. from different modules, sharing a name):
    the processor knows states by function object, only the logs use the name"""
    fns = []
    for i in range(NSTATES):
        ns = {"_h": _h}
        exec("def idle(chart, e):\n  return _h(%d, chart, e)\n" % i, ns)
        fn = ns["idle"]
        fns.append(decorate(fn) if decorate else fn)
    return fns


def _make_family_mixed(first_spied):
    """only every other state carries the spy decorator"""
    plain, spied = _make_family(None), _make_family(hsm.spy_on)
    return [(spied if (i % 2 == 0) == first_spied else plain)[i] for i in range(NSTATES)]


FAMILIES = {"plain": _make_family(None), "spied": _make_family(hsm.spy_on),
            "mixed_even_spied": _make_family_mixed(True), "mixed_odd_spied": _make_family_mixed(False),
            "plain_same_name": _make_family_same_name(None), "spied_same_name": _make_family_same_name(hsm.spy_on)}
NAMES = ["s%d" % i for i in range(NSTATES)]


def name_of(i):
    return "top" if i < 0 else NAMES[i]


# ------------------------------------------------------------- hosts

def _counting(cls):
    class Counting(cls):
        def top(self, *args):
            t = T
            t.calls += 1
            if t.calls > t.budget:
                raise BudgetExceeded("top budget")
            return super().top(*args)
    Counting.__name__ = "Counting" + cls.__name__
    return Counting


HOSTS = {
    "plain": _counting(hsm.HsmEventProcessor),
    "instrumented": _counting(hsm.InstrumentedHsmEventProcessor),
    "queued": _counting(hsm.HsmWithQueues),
}
HOSTS["queued_off"] = HOSTS["queued"]      # constructed with instrumented=False, whatever the states look like


def new_host(kind, **kw):
    return HOSTS[kind](**kw)


def ev(name):
    return Event(signal=SIG[name])


def config_of(chart):
    """index of the current state, from the processor's own field."""
    f = chart.state.fun
    n = getattr(f, "__name__", None)
    if n == "top":
        return -1
    S = getattr(T, "S", None)
    if S is not None:               # by identity first (families whose functions share a name)
        for i, g in enumerate(S):
            if g is f:
                return i
    return NAMES.index(n)
