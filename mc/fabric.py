"""Engine-B/C helpers for checks on the bare active fabric (C06, C08, C13):
operation sequences on the real ActiveFabricSource with its two delivery
threads running under the controlled scheduler, and a level-synchronous BFS
over such sequences with canonical-state deduplication."""
from collections import deque
from mc.common import Violation, pmap, ncpu, ToolingError
from mc import sched, aoenv, explore, aoharness as H
from miros.event import Event, signals
import miros.activeobject as ao

FABRIC_CODES = ["ActiveFabricSource.subscribe", "ActiveFabricSource.publish", "ActiveFabricSource.thread_runner",
                "ActiveFabricSource.start", "ActiveFabricSource.stop", "ActiveFabricSource.is_alive",
                "ActiveFabricSource.clear", "ActiveFabricSource.subscribed"]


def fabric_codes(extra=()):
    """code objects of the fabric whose lines are scheduling points"""
    return H.pick_codes(FABRIC_CODES + list(extra))


def make_queues():
    """q0, q1: two distinct plain deques that compare equal whenever their contents do; q2: a LockingDeque"""
    return [deque(maxlen=64), deque(maxlen=64), ao.LockingDeque()]


def contents(q):
    d = q.deque if isinstance(q, ao.LockingDeque) else q
    return [H.label_of(e) for e in d]


def registry_of(fab, qs):
    """the real registry: kind -> signal -> list of queue indices (by identity; -1 = a queue we never made)"""
    def idx(q):
        for i, x in enumerate(qs):
            if x is q:
                return i
        return -1
    out = {}
    for kind, reg in (("fifo", fab.fifo_subscriptions), ("lifo", fab.lifo_subscriptions)):
        out[kind] = {sig: [idx(q) for q in lst] for sig, lst in sorted(reg.items())}
    return out


def fabric_threads(s):
    """live delivery threads, counted in the scheduler's own thread table by name"""
    live = {"fifo": 0, "lifo": 0}
    for t in s.threads:
        if t.started and not t.finished:
            if t.name == "fifo active fabric":
                live["fifo"] += 1
            elif t.name == "lifo active fabric":
                live["lifo"] += 1
    return live


def do_subscribe(fab, qs, qi, sig, kind):
    """the documented argument forms, fixed per queue so that the alphabet stays small: q0 subscribes with an
    Event and the default kind spelled None when fifo; q1 with the signal number; q2 with an Event"""
    arg = signals[sig] if qi == 1 else Event(signal=sig)
    k = None if (qi == 0 and kind == "fifo") else kind
    return fab.subscribe(qs[qi], arg, queue_type=k)


class SeqHarness:
    """one deterministic execution (default schedule) of an operation list; the delivery threads run to
    quiescence after every operation"""
    name = "fabric-seq"
    horizon = 20000
    lock_points = False
    fair_k = 10 ** 9

    def __init__(self):
        self._ready = False

    def setup_process(self):
        if not self._ready:
            aoenv.install()
            sched.unmonitor()
            self._ready = True

    def apply(self, s, fab, qs, k, op, st):
        raise NotImplementedError

    def body(self, s, p):
        aoenv.reset()
        fab = ao.ActiveFabric()
        qs = make_queues()
        st = {"fab": fab, "qs": qs}
        steps = []
        for k, op in enumerate(p["ops"]):
            r = self.apply(s, fab, qs, k, tuple(op), st)
            s.settle()
            steps.append(r)
        return self.observe(s, fab, qs, st, steps)

    def observe(self, s, fab, qs, st, steps):
        return {"contents": [contents(q) for q in qs], "registry": registry_of(fab, qs),
                "live": fabric_threads(s), "steps": steps,
                "thread_exceptions": [x[:3] for x in s.thread_exceptions]}

    def on_abort(self, s, p):
        return {"threads": [x for x in s.snapshot if not x[2]][:8]}

    def check(self, p, ex):
        return []


def run_ops(harness, ops):
    harness.setup_process()
    return explore.run_execution(harness, {"ops": [list(o) for o in ops]}, ())


def bfs(pid, harness, alphabet, depth, enabled, canon, judge, first_level=None, max_states=None):
    """level-synchronous BFS.  enabled(path) -> ops that may follow; canon(path, ex) -> hashable state or None
    (None: do not expand); judge(path, ex) -> list[(key, what)].  Returns dict with counts, violations, samples."""
    jobs = ncpu()

    def work(paths):
        out = []
        for path in paths:
            ex = run_ops(harness, path)
            v = judge(path, ex)
            c = None if v else canon(path, ex)
            out.append((path, c, v, ex.verdict, ex.points if hasattr(ex, "points") else 0))
        return out

    seen = set()
    frontier = [tuple([op]) for op in (first_level or enabled(()))]
    n_trans = 0
    viol = []
    samples = []
    verdicts = {}
    capped = False
    for level in range(1, depth + 1):
        if not frontier:
            break
        chunks = [frontier[i::jobs * 4] for i in range(jobs * 4)]
        chunks = [c for c in chunks if c]
        res = pmap(work, chunks, jobs)
        nxt = []
        for part in res:
            for path, c, v, verdict, _ in part:
                n_trans += 1
                verdicts[verdict] = verdicts.get(verdict, 0) + 1
                for key, what in v:
                    if sum(1 for x in viol if x.key == key) < 2:
                        viol.append(Violation(key, what, {"ops": [list(o) for o in path]}))
                if v or c is None:
                    continue
                if c in seen:
                    continue
                seen.add(c)
                if len(samples) < 2 and len(path) >= min(depth, 4):
                    samples.append({"ops": [list(o) for o in path]})
                if level < depth:
                    for op in enabled(path):
                        nxt.append(path + (op,))
        if max_states and len(seen) > max_states:
            capped = True
            break
        frontier = sorted(nxt)
    return {"states": len(seen), "transitions": n_trans, "violations": viol, "samples": samples,
            "verdicts": verdicts, "capped": capped, "depth": depth}
