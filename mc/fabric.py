"""Engine-B/C helpers for checks on the bare active fabric (C06, C08, C13):
operation sequences on the real ActiveFabricSource with its two delivery
threads running under the controlled scheduler, and a level-synchronous BFS
over such sequences with canonical-state deduplication."""
from collections import deque
from mc.common import Violation, pmap, ncpu, ToolingError
from mc import sched, aoenv, explore, aoharness as H
from miros.event import Event, signals
import miros.activeobject as ao

FABRIC_CODES = ["ActiveFabricSource.subscribe", "ActiveFabricSource.publish", "ActiveFabricSource.thread_runner",
                "ActiveFabricSource.start", "ActiveFabricSource.stop", "ActiveFabricSource.is_alive",
                "ActiveFabricSource.clear", "ActiveFabricSource.subscribed"]


def fabric_codes(extra=()):
    """code objects of the fabric whose lines are scheduling points"""
    return H.pick_codes(FABRIC_CODES + list(extra))


def make_queues():
    """q0, q1: two distinct plain deques that compare equal whenever their contents do; q2: a LockingDeque"""
    return [deque(maxlen=64), deque(maxlen=64), ao.LockingDeque()]


def contents(q):
    d = q.deque if isinstance(q, ao.LockingDeque) else q
    return [H.label_of(e) for e in d]


def registry_of(fab, qs):
    """the real registry: kind -> signal -> list of queue indices (by identity; -1 = a queue we never made)"""
    def idx(q):
        for i, x in enumerate(qs):
            if x is q:
                return i
        return -1
    out = {}
    for kind, reg in (("fifo", fab.fifo_subscriptions), ("lifo", fab.lifo_subscriptions)):
        out[kind] = {sig: [idx(q) for q in lst] for sig, lst in sorted(reg.items())}
    return out


def fabric_threads(s):
    """live delivery threads, counted in the scheduler's own thread table by name"""
    live = {"fifo": 0, "lifo": 0}
    for t in s.threads:
        if t.started and not t.finished:
            if t.name == "fifo active fabric":
                live["fifo"] += 1
            elif t.name == "lifo active fabric":
                live["lifo"] += 1
    return live


def do_subscribe(fab, qs, qi, sig, kind):
    """the documented argument forms, fixed per queue so that the alphabet stays small: q0 subscribes with an
    Event and the default kind spelled None when fifo; q1 with the signal number; q2 with an Event"""
    arg = signals[sig] if qi == 1 else Event(signal=sig)
    k = None if (qi == 0 and kind == "fifo") else kind
    return fab.subscribe(qs[qi], arg, queue_type=k)


class SeqHarness:
    """one deterministic execution (default schedule) of an operation list; the delivery threads run to
    quiescence after every operation"""
    name = "fabric-seq"
    horizon = 20000
    lock_points = False
    fair_k = 10 ** 9

    def __init__(self):
        self._ready = False

    def setup_process(self):
        if not self._ready:
            aoenv.install()
            sched.unmonitor()
            self._ready = True

    def apply(self, s, fab, qs, k, op, st):
        raise NotImplementedError

    def body(self, s, p):
        aoenv.reset()
        fab = ao.ActiveFabric()
        qs = make_queues()
        st = {"fab": fab, "qs": qs}
        steps = []
        for k, op in enumerate(p["ops"]):
            r = self.apply(s, fab, qs, k, tuple(op), st)
            s.settle()
            steps.append(r)
        return self.observe(s, fab, qs, st, steps)

    def observe(self, s, fab, qs, st, steps):
        return {"contents": [contents(q) for q in qs], "registry": registry_of(fab, qs),
                "live": fabric_threads(s), "steps": steps,
                "thread_exceptions": [x[:3] for x in s.thread_exceptions]}

    def on_abort(self, s, p):
        return {"threads": [x for x in s.snapshot if not x[2]][:8]}

    def check(self, p, ex):
        return []


def run_ops(harness, ops):
    harness.setup_process()
    return explore.run_execution(harness, {"ops": [list(o) for o in ops]}, ())


def bfs(pid, harness, alphabet, depth, enabled, canon, judge, first_level=None, max_states=None):
    """level-synchronous BFS.  enabled(path) -> ops that may follow; canon(path, ex) -> hashable state or None
    (None: do not expand); judge(path, ex) -> list[(key, what)].  Returns dict with counts, violations, samples."""
    jobs = ncpu()

    def work(paths):
        out = []
        for path in paths:
            ex = run_ops(harness, path)
            v = judge(path, ex)
            c = None if v else canon(path, ex)
            out.append((path, c, v, ex.verdict, ex.points if hasattr(ex, "points") else 0))
        return out

    seen = set()
    frontier = [tuple([op]) for op in (first_level or enabled(()))]
    n_trans = 0
    viol = []
    samples = []
    verdicts = {}
    capped = False
    for level in range(1, depth + 1):
        if not frontier:
            break
        chunks = [frontier[i::jobs * 4] for i in range(jobs * 4)]
        chunks = [c for c in chunks if c]
        res = pmap(work, chunks, jobs)
        nxt = []
        for part in res:
            for path, c, v, verdict, _ in part:
                n_trans += 1
                verdicts[verdict] = verdicts.get(verdict, 0) + 1
                for key, what in v:
                    if sum(1 for x in viol if x.key == key) < 2:
                        viol.append(Violation(key, what, {"ops": [list(o) for o in path]}))
                if v or c is None:
                    continue
                if c in seen:
                    continue
                seen.add(c)
                if len(samples) < 2 and len(path) >= min(depth, 4):
                    samples.append({"ops": [list(o) for o in path]})
                if level < depth:
                    for op in enabled(path):
                        nxt.append(path + (op,))
        if max_states and len(seen) > max_states:
            capped = True
            break
        frontier = sorted(nxt)
    return {"states": len(seen), "transitions": n_trans, "violations": viol, "samples": samples,
            "verdicts": verdicts, "capped": capped, "depth": depth}


# ------------------------------------------------------------------ publications waiting across stop() / start()

class Restart:
    """k publications (priority 1 or default) made while the fabric runs, then - without waiting for the delivery
    threads - stop(), optionally more publications while it is stopped, and start() again.  Used by C06 (every
    publication reaches each subscription exactly once) and C08 (equal priorities in publish order) with all schedules
    of the main thread against the delivery threads to the deviation bound."""
    name = "fabric-restart"
    horizon = 6000
    lock_points = False
    fair_k = 80

    def __init__(self, pid, mode="line"):
        self.pid, self.mode, self._ready = pid, mode, False
        self.name = "%s-restart" % pid.lower()

    def setup_process(self):
        if not self._ready:
            aoenv.install()
            sched.monitor(fabric_codes(), self.mode)
            self._ready = True

    def body(self, s, p):
        aoenv.reset()
        fab = ao.ActiveFabric()
        qs = make_queues()
        fab.subscribe(qs[0], Event(signal="A"))
        fab.subscribe(qs[1], Event(signal="A"), queue_type="lifo")
        fab.start()
        s.settle()
        s.open_window()
        labels = []

        def pub(k, prio):
            labels.append("A/r%d" % k)
            if prio is None:
                fab.publish(Event(signal="A", payload="r%d" % k))
            else:
                fab.publish(Event(signal="A", payload="r%d" % k), priority=prio)
        k = 0
        for prio in p["before"]:
            pub(k, prio)
            k += 1
        for _ in range(p.get("cycles", 1)):
            fab.stop()
            for prio in p.get("during", ()):
                pub(k, prio)
                k += 1
            fab.start()
        s.settle()
        return {"published": labels, "fifo": contents(qs[0]), "lifo": contents(qs[1]), "live": fabric_threads(s),
                "thread_exceptions": [x[:3] for x in s.thread_exceptions]}

    def on_abort(self, s, p):
        return {"threads": [x for x in s.snapshot if not x[2]][:8]}

    def check(self, p, ex):
        pid = self.pid
        if ex.verdict != "done":
            return [("%s/restart/%s" % (pid, ex.verdict), "%r ended with %s: %r" % (p, ex.verdict, ex.obs))]
        o = ex.obs
        out = []
        if o["thread_exceptions"]:
            out.append(("%s/restart/exception" % pid, "%r" % (o["thread_exceptions"],)))
        if pid == "C06":
            for kind in ("fifo", "lifo"):
                got = o[kind]
                for lab in o["published"]:
                    n = got.count(lab)
                    # publications made while the fabric was stopped wait for the next start(): owed as well, but only
                    # those made while it ran are what the property names
                    made_running = int(lab.split("r")[1]) < len(p["before"])
                    if n != 1 and (made_running or n > 1):
                        out.append(("%s/restart/%s/%s" % (pid, "lost" if n < 1 else "duplicate", kind),
                                    "publications %r made while the fabric ran, then stop()/start() %r: the %s subscriber holds %s %d "
                                    "times: %r" % (p["before"], p.get("during"), kind, lab, n, got)))
                        break
                stray = [x for x in got if x not in o["published"]]
                if stray:
                    out.append(("%s/restart/stray" % pid, "%r" % (stray,)))
        else:
            prios = list(p["before"]) + list(p.get("during", ())) * p.get("cycles", 1)
            if len(set(prios)) == 1:
                got = [x for x in o["fifo"] if x in o["published"]]
                want = [x for x in o["published"] if x in got]
                if got != want:
                    out.append(("%s/restart/equal-priority-order" % pid, "publications of equal priority %r around stop()/start(): the fifo "
                                "subscriber received %r, published order %r" % (prios, got, want)))
        if o["live"] != {"fifo": 1, "lifo": 1}:
            out.append(("%s/restart/threads" % pid, "live delivery threads after the restart: %r" % (o["live"],)))
        return out


def restart_params(tier):
    import itertools
    q = tier == "quick"
    ps = []
    for n in (1, 2, 3):
        for before in itertools.product((1, None), repeat=n):
            if n == 3 and len(set(before)) > 1 and q:
                continue
            ps.append({"before": list(before), "bound": 1 if (q or n == 3) else 2})
    ps.append({"before": [1, 1], "during": [1], "bound": 1})
    ps.append({"before": [None, None], "during": [None], "bound": 1})
    ps.append({"before": [1, 1, 1, 1], "bound": 0 if q else 1})
    ps.append({"before": [1, 1], "during": [1], "cycles": 2, "bound": 0 if q else 1})
    return ps
