#!/usr/bin/env python3
"""Verify and file a seeded property-breaking change produced by a sub-agent.

  seed.py verify <agent_worktree> <PID>        suite + demo with / without the patch in a fresh scratch worktree
  seed.py detect <agent_worktree|seed_dir> <PID> [more PIDs]   apply to /repo, run ./check, revert
  seed.py keep   <agent_worktree> <PID> <seed_id> "<needs>"    copy into /verif/seeded/<seed_id>/
"""
import sys, os, subprocess, shutil, json, glob, time

VERIF = os.path.dirname(os.path.dirname(os.path.abspath(__file__)))


def sh(cmd, cwd=None, env=None, timeout=1800):
    p = subprocess.run(cmd, shell=True, cwd=cwd, env=env, stdout=subprocess.PIPE, stderr=subprocess.STDOUT, text=True, timeout=timeout)
    return p.returncode, p.stdout


def find(wt, pid):
    patch = os.path.join(wt, "patch.rebased.diff")
    if not os.path.exists(patch):
        patch = os.path.join(wt, "patch.diff")
    demos = glob.glob(os.path.join(wt, "demo_*.py")) + glob.glob(os.path.join(wt, "demo*.py"))
    return patch, demos[0]


def verify(wt, pid):
    patch, demo = find(wt, pid)
    v = "/tmp/vwt_%s" % pid.lower()
    sh("git -C /repo worktree remove --force %s" % v)
    rc, out = sh("git -C /repo worktree add -q %s HEAD" % v)
    assert rc == 0, out
    try:
        env = dict(os.environ, PYTHONPATH=v)
        # python puts the script's directory first on sys.path: run a copy inside the scratch tree
        txt = open(demo).read().replace(wt.rstrip("/"), v)
        demo = os.path.join(v, os.path.basename(demo))
        open(demo, "w").write(txt)
        rc0, out0 = sh("timeout 300 /venv/bin/python %s" % demo, cwd=v, env=env)
        print("demo WITHOUT patch: exit", rc0, "|", out0.strip().splitlines()[-1:] )
        rc, out = sh("git apply %s" % patch, cwd=v)
        if rc != 0:     # /repo moved on since the agent's worktree was made: three-way merge, keep the rebased patch
            rc, out = sh("git apply --3way %s && git reset -q" % patch, cwd=v)
            assert rc == 0, "patch does not apply: " + out
            rc, out = sh("git diff -- miros", cwd=v)
            open(os.path.join(wt, "patch.rebased.diff"), "w").write(out)
            print("patch rebased onto current HEAD ->", os.path.join(wt, "patch.rebased.diff"))
        rc1, out1 = sh("timeout 300 /venv/bin/python %s" % demo, cwd=v, env=env)
        print("demo WITH patch:    exit", rc1, "|", out1.strip().splitlines()[-3:])
        rc2, out2 = sh("python3 %s/tools/suite.py %s" % (VERIF, v))
        print("suite WITH patch:", out2.strip().splitlines()[0], "rc", rc2)
        ok = rc0 == 0 and rc1 != 0 and rc2 == 0
        print("VERIFY", pid, "OK" if ok else "FAILED")
        return ok
    finally:
        sh("git -C /repo worktree remove --force %s" % v)


def detect(src, pids, tier="quick"):
    """run the checks against a scratch worktree of /repo HEAD with the patch applied (MIROS_REPO), so that
    /repo itself and /verif/evidence are left alone and several detections can run side by side"""
    src = os.path.abspath(src)
    patch = find(src, None)[0] if glob.glob(os.path.join(src, "demo*.py")) else os.path.join(src, "patch.diff")
    v = "/tmp/dwt_%s_%d" % (os.path.basename(src.rstrip("/")), os.getpid())
    rc, out = sh("git -C /repo worktree add -q %s HEAD" % v)
    assert rc == 0, out
    evd = v + "_ev"
    os.makedirs(evd, exist_ok=True)
    res = {}
    try:
        rc, out = sh("git apply %s" % patch, cwd=v)
        if rc != 0:
            rc, out = sh("git apply --3way %s && git reset -q" % patch, cwd=v)
        assert rc == 0, "patch does not apply: " + out
        env = dict(os.environ, MIROS_REPO=v, VERIF_EVIDENCE_DIR=evd)
        for pid in pids:
            t = time.time()
            rc, out = sh("timeout 3000 ./check %s --tier %s" % (pid, tier), cwd=VERIF, env=env, timeout=3100)
            lines = [l for l in out.splitlines() if l.startswith(("VIOLATION", "TOOLING", "KNOWN"))][:4]
            print("check %s -> exit %d (%.0fs)" % (pid, rc, time.time() - t))
            for l in lines:
                print("   ", l[:300])
            if rc not in (0, 1):
                print(out[-1500:])
            res[pid] = rc
    finally:
        sh("git -C /repo worktree remove --force %s" % v)
        shutil.rmtree(evd, True)
    return res


def keep(wt, pid, sid, needs, ran):
    patch, demo = find(wt, pid)
    d = os.path.join(VERIF, "seeded", sid)
    os.makedirs(d, exist_ok=True)
    shutil.copy(patch, os.path.join(d, "patch.diff"))
    shutil.copy(demo, os.path.join(d, os.path.basename(demo)))
    if os.path.exists(os.path.join(wt, "NOTES.md")):
        shutil.copy(os.path.join(wt, "NOTES.md"), os.path.join(d, "NOTES.md"))
    json.dump({"property": pid, "needs": needs, "ran": ran, "demo": os.path.basename(demo)},
              open(os.path.join(d, "meta.json"), "w"), indent=1)
    print("kept", d)


if __name__ == "__main__":
    cmd = sys.argv[1]
    if cmd == "verify":
        sys.exit(0 if verify(sys.argv[2], sys.argv[3]) else 1)
    elif cmd == "detect":
        a = sys.argv[3:]
        tier = "quick"
        if a and a[0] in ("quick", "thorough"):
            tier, a = a[0], a[1:]
        r = detect(sys.argv[2], a, tier)
        sys.exit(0)
    elif cmd == "keep":
        keep(sys.argv[2], sys.argv[3], sys.argv[4], sys.argv[5], sys.argv[6] if len(sys.argv) > 6 else "")
