#!/usr/bin/env python3
"""seed_prompt.py <PID> [suffix]: make a scratch worktree /tmp/wt_<pid><suffix> of /repo HEAD and print the
prompt for a fresh sub-agent (property text only, nothing from /verif)."""
import sys, json, os, subprocess
HERE = os.path.dirname(os.path.dirname(os.path.abspath(__file__)))
pid = sys.argv[1].upper()
suffix = sys.argv[2] if len(sys.argv) > 2 else ""
hint = sys.argv[3] if len(sys.argv) > 3 else ""
wt = "/tmp/wt_%s%s" % (pid.lower(), suffix)
prop = None
for l in open(os.path.join(HERE, "properties.jsonl")):
    d = json.loads(l)
    if d["id"] == pid:
        prop = d
subprocess.run("git -C /repo worktree remove --force %s" % wt, shell=True, stdout=subprocess.DEVNULL, stderr=subprocess.DEVNULL)
subprocess.run("git -C /repo worktree add -q %s HEAD" % wt, shell=True, check=True)
p = {k: prop[k] for k in ("id", "title", "statement", "quantifier", "anchors")}
print("""You are helping to evaluate a verification tool for the Python library miros (aleph2c/miros: hierarchical
state machines, active objects, a pub-sub fabric, timed events).  Your own scratch git worktree of the library is at
{wt} (work ONLY there; never touch /repo or /verif, and do not read anything under /verif).  Python: /venv/bin/python
(3.12).  The library's tests run with:  cd {wt} && PYTHONPATH={wt} /venv/bin/python -m pytest -q -p no:cacheprovider --timeout=900 --continue-on-collection-errors
(about one minute; test.crypto_test::test_cryptography always fails and test_group_4/test_group_14 of comprehensive_hsm_test are flaky - ignore those three).
IMPORTANT: always set PYTHONPATH={wt} when running python, otherwise the installed copy in /repo is imported instead of yours.

Here is a semantic property that the library is supposed to satisfy (line numbers in the anchors may be slightly off):

{prop}

TASK: make a small, realistic change to the library source (under {wt}/miros) - the kind of slip a maintainer could make in a
refactoring or an 'optimisation' - that BREAKS this property while the code still imports and the existing test suite still
passes (run it to be sure; only the three tests named above may fail).  The change must need something specific to manifest:
a particular interleaving of threads, a fault at a particular point, a multi-step sequence of operations, an unusual input or
chart shape, or two cooperating sites that each look fine alone - NOT something that ordinary use would expose at once.
Do not just delete a feature or raise an exception unconditionally. {hint}

Deliver, in the root of {wt}:
  1. patch.diff   - `git diff` of your change (only files under miros/), so that `git apply patch.diff` on a clean checkout reproduces it;
  2. demo_{lpid}.py - a stand-alone program (imports miros, no pytest needed) that exits 0 on the unchanged library and exits
     non-zero (assert / sys.exit(1)) with your change applied.  It is run as: cd <tree> && PYTHONPATH=<tree> /venv/bin/python demo_{lpid}.py
     - it must not hard-code {wt}; it should finish within 60 s and be deterministic (if it depends on thread timing, force the
     interleaving, e.g. by wrapping/monkeypatching functions in the demo to pause at the critical point, rather than hoping);
  3. NOTES.md - 5-15 lines: what you changed, why it breaks the property, what exactly is needed for it to manifest.
Verify yourself: demo passes without the change (use `git diff > patch.diff; git apply -R patch.diff` and later `git apply patch.diff` - do NOT use git stash, the stash is shared with other worktrees), fails with it, and the test suite passes with it.  Leave the
change applied in the worktree when you finish.  In your final answer give a 5-line summary (what changed, what triggers it).
""".format(wt=wt, prop=json.dumps(p, indent=1), lpid=pid.lower(), hint=hint))
