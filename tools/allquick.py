#!/usr/bin/env python3
"""Run every quick_cmd (or thorough_cmd) of MANIFEST.json (optionally with VERIF_SEED=<n>) and summarise:
allquick.py [seed] [quick|thorough] [ID ...]"""
import json, os, subprocess, sys, time
VERIF = os.path.dirname(os.path.dirname(os.path.abspath(__file__)))
seed = sys.argv[1] if len(sys.argv) > 1 else "0"
tier = sys.argv[2] if len(sys.argv) > 2 else "quick"
m = json.load(open(os.path.join(VERIF, "MANIFEST.json")))
bad = []
t0 = time.time()
only = set(sys.argv[3:])
for c in m["checks"]:
    if only and c["property_id"] not in only:
        continue
    t = time.time()
    p = subprocess.run(c["%s_cmd" % tier], shell=True, cwd=VERIF, env=dict(os.environ, VERIF_SEED=seed, VERIF_TIER=tier),
                       stdout=subprocess.PIPE, stderr=subprocess.STDOUT, text=True)
    alarm = [l for l in p.stdout.splitlines() if l.startswith(("VIOLATION", "TOOLING"))]
    print("%s exit=%d %.0fs %s" % (c["property_id"], p.returncode, time.time() - t, alarm[:1]), flush=True)
    if p.returncode != 0 or alarm:
        bad.append(c["property_id"])
print("seed %s: %d checks, %.0fs, not clean: %r" % (seed, len(m["checks"]), time.time() - t0, bad))
sys.exit(1 if bad else 0)
