#!/usr/bin/env python3
"""Run the repository's pinned suite on a tree (default /repo) and compare with
BASELINE.json's stable_pass list.  usage: suite.py [repo_dir]"""
import sys, json, subprocess, tempfile, os, xml.etree.ElementTree as ET
repo = sys.argv[1] if len(sys.argv) > 1 else "/repo"
base = json.load(open("/root/.vp/BASELINE.json"))
fd, xml = tempfile.mkstemp(suffix=".xml"); os.close(fd)
env = dict(os.environ); env.pop("MIROS_VERIF", None)
env["PYTHONPATH"] = repo
p = subprocess.run(["/venv/bin/python", "-m", "pytest", "-q", "-p", "no:cacheprovider", "--timeout=900",
                    "--continue-on-collection-errors", "--junitxml=" + xml], cwd=repo, env=env,
                   stdout=subprocess.PIPE, stderr=subprocess.STDOUT, text=True)
passed = set()
for tc in ET.parse(xml).getroot().iter("testcase"):
    if not any(c.tag in ("failure", "error", "skipped") for c in tc):
        passed.add("%s::%s" % (tc.get("classname"), tc.get("name")))
os.unlink(xml)
missing = [t for t in base["stable_pass"] if t not in passed]
print("passed=%d stable_missing=%d" % (len(passed), len(missing)))
for m in missing:
    print("  MISSING", m)
if missing:
    print(p.stdout[-3000:])
sys.exit(1 if missing else 0)
