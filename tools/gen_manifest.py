#!/usr/bin/env python3
"""Regenerate MANIFEST.json from the table below (kept here so the manifest is
always valid and always lists every property either as a check or as
not_applicable)."""
import json, os
HERE = os.path.dirname(os.path.dirname(os.path.abspath(__file__)))
ALL = ["C%02d" % i for i in range(1, 33)]

A = "engine-A"; B = "engine-B"; C = "engine-C"
CHECKS = {
 "C01": dict(engine=A, technique="explicit-state enumeration of (chart, configuration, event) over the real dispatch vs UML reference model",
   text="Every single-step scenario (all forest shapes <= 8 states, every current state, every answering state on the active path, every target, every chain of initial transitions) is executed on the real processor (plain, instrumented, queued hosts) and the ordered entry/exit/init log, resting state and temp/state invariant are compared with a 40-line reference model; each step is repeated from the reached configuration. Exhaustive within the bound; spine charts of depth up to 12/14 push path lengths past the internal buffer.",
   note="Bounded: forests <= 8 (quick) / 9 (thorough) states on the plain host, <= 6/7 on wrapped hosts; memorylessness between steps is checked, not assumed; reference model trusted.", ref="3, 6/C01"),
}
NOT_YET = "check not built yet in this round (planned, see DESIGN.md section 6)"

def main():
    checks = []
    for pid in ALL:
        if pid not in CHECKS:
            continue
        c = CHECKS[pid]
        checks.append({
            "property_id": pid,
            "quick_cmd": "timeout 900 ./check %s --tier quick" % pid,
            "thorough_cmd": "timeout 14000 ./check %s --tier thorough" % pid,
            "evidence_file": "/verif/evidence/%s.json" % pid,
            "replay_cmd_template": "./check %s --replay {path}" % pid,
            "engine": c["engine"],
            "level_claimed": {"category": c.get("level", "model_checking"), "text": c["text"], "design_ref": c["ref"]},
            "level_note": c["note"],
            "technique": c["technique"],
        })
    m = {
        "version": 1,
        "setup_cmd": "/venv/bin/python -m compileall -q mc && /venv/bin/python -m mc.selftest",
        "hooks": {"guard": "MIROS_VERIF", "enable": "no source hooks: every seam is a module-level or class-level name rebound by the harness at run time",
                  "baseline_off_cmd": "cd /repo && /venv/bin/python -m pytest -ra -q -p no:cacheprovider --timeout=900 --continue-on-collection-errors",
                  "source_commits": [], "add_only": True},
        "engines": [
            {"name": A, "path": "mc/charts.py mc/hsmrun.py mc/refmodel.py mc/forests.py", "serves_properties": [p for p in ALL if p in CHECKS and CHECKS[p]["engine"] == A],
             "kind_free_text": "explicit-state search over (chart, configuration, event) calling the real start_at/dispatch/next_rtc; oracle = small UML reference model"},
            {"name": B, "path": "mc/sched.py mc/explore.py", "serves_properties": [p for p in ALL if p in CHECKS and CHECKS[p]["engine"] == B],
             "kind_free_text": "stateless preemption-bounded exploration (CHESS style) of the real miros threads under a cooperative scheduler with stand-in primitives and sys.monitoring scheduling points"},
            {"name": C, "path": "mc/props", "serves_properties": [p for p in ALL if p in CHECKS and CHECKS[p]["engine"] == C],
             "kind_free_text": "bounded-exhaustive enumeration of operation sequences / inputs against a reference model (BFS with canonical states where a state graph exists)"},
        ],
        "checks": checks,
        "not_applicable": [{"property_id": p, "reason": NOT_YET} for p in ALL if p not in CHECKS],
        "notes": "All checks run /venv/bin/python (3.12) against MIROS_REPO (default /repo) imported from source. Exit 2 = tooling error.",
    }
    with open(os.path.join(HERE, "MANIFEST.json"), "w") as f:
        json.dump(m, f, indent=1)
    print("checks=%d not_applicable=%d" % (len(checks), len(m["not_applicable"])))

if __name__ == "__main__":
    main()
