#!/usr/bin/env python3
"""Regenerate MANIFEST.json from the table below (kept here so the manifest is
always valid and always lists every property either as a check or as
not_applicable)."""
import json, os
HERE = os.path.dirname(os.path.dirname(os.path.abspath(__file__)))
ALL = ["C%02d" % i for i in range(1, 33)]

A = "engine-A"; B = "engine-B"; C = "engine-C"
CHECKS = {
 "C01": dict(engine=A, technique="explicit-state enumeration of (chart, configuration, event) over the real dispatch vs UML reference model",
   text="Every single-step scenario (all forest shapes <= 8 states, every current state, every answering state on the active path, every target, every chain of initial transitions) is executed on the real processor (plain, instrumented, queued hosts) and the ordered entry/exit/init log, resting state and temp/state invariant are compared with a 40-line reference model; each step is repeated from the reached configuration. Exhaustive within the bound; spine charts of depth up to 12/14 push path lengths past the internal buffer.",
   note="Bounded: forests <= 8 (quick) / 9 (thorough) states on the plain host, <= 6/7 on wrapped hosts; memorylessness between steps is checked, not assumed; reference model trusted.", ref="3, 6/C01"),
 "C02": dict(engine=A, technique="explicit-state enumeration of (chart, configuration, reaction vector) over the real dispatch vs reference model",
   text="Every forest <= 7 states, every current state, every reaction vector along the active path (defer/decline below the answerer; handle or transition at it; armed reactions above it; nobody answers) is dispatched twice on the real processor on 4 hosts; the offer log, absence of entry/exit/init actions, unchanged configuration and the ignored flag are compared with the reference model.",
   note="Bounded forests <= 7 (quick) / 9 (thorough); transition targets limited (C01 covers targets).", ref="3, 6/C02"),
 "C03": dict(engine=A, technique="explicit-state enumeration of (chart, start state, init chain) over the real start_at vs reference model",
   text="Every forest <= 9 states (plus spines to depth 14), every start state and every chain of initial transitions below it is started on the real processor on 4 hosts and both handler styles; the ordered entry/init log (exactly-once, nothing exited) and the resting state are compared with the reference model.",
   note="Bounded forests <= 9 (quick) / 10 (thorough) on the plain host, <= 7/8 on wrapped hosts.", ref="3, 6/C03"),
 "C22": dict(engine=A, technique="explicit-state enumeration of (chart, configuration, query, argument) over the real is_in/child_state",
   text="Every forest <= 7 states, every configuration reached by start_at and by a transition from every other state, every query argument (each state and top): answers compared with the parent map, child_state must fail when the argument does not enclose the current state, state.fun/temp.fun/state_name/state_fn must be unchanged and the next step must match the reference model.",
   note="Bounded forests <= 7 (quick) / 8 (thorough); 'fails' means raises.", ref="6/C22"),
 "C23": dict(engine=A, technique="explicit-state enumeration over the C01/C02/C03 scenario families comparing state_name/state_fn/current_state with the reference configuration",
   text="After start_at and after each step of every C01, C02 and C03 scenario on forests <= 6 and all 4 hosts, state_name, state_fn (handler or the function it decorates) and current_state() are compared with the reference model's configuration.",
   note="Bounded forests <= 6 (quick) / 7 (thorough).", ref="6/C23"),
 "C24": dict(engine=A, technique="explicit-state enumeration of malformed charts (one malformation each) reached by start_at and by dispatch, with a call-budget watchdog",
   text="Every forest <= 6 states with exactly one malformation (initial transition to self/ancestor/sibling/elsewhere through every well-formed init chain; handler returning None for user signals or always) reached by start_at and by a transition from every resting state on 4 hosts must raise HsmTopologyException within a 3000-call budget; a hang, a normal return or another exception is a violation.",
   note="Transitions into an always-None state are only required to terminate (the event is not offered to the faulty state there). Bounded forests <= 6 (quick) / 7 (thorough).", ref="6/C24"),
 "C04": dict(engine=B, technique="stateless preemption-bounded exploration of the real active-object threads under a controlled scheduler; brute-force linearisability vs reference deque",
   text="Harnesses H1 (2-3 external posters mixing post_fifo/post_lifo), H2 (+ posts from inside a handler), H3 (+ a timed source on a virtual clock), H4 (+ publications through the fabric), H5 (capacity 2, overflow) run the real ActiveObject/LockingDeque/fabric code on real threads gated by a cooperative scheduler; every schedule with <= 2 deviations (preemptions / early timer; H4 bound 1 in the quick tier) at source-line granularity of the queue code is executed. Oracle per execution: posts linearisable against a reference deque given the observed dispatch order, exactly-once, empty queue and waiting consumer at quiescence, steps never nest.",
   note="Bounds: 2-3 posters x 1-2 posts, preemption bound 2 (3 for one harness in the thorough tier); scheduling points = stand-in primitive operations + source lines of LockingDeque, run_event, next_rtc, post_fifo/post_lifo, timer runner, fabric runners; stand-in primitives (CQueue/CEvent/CThread) trusted to behave like the stdlib ones.", ref="4, 6/C04"),
 "C05": dict(engine=B, technique="stateless preemption-bounded exploration with a fair suffix and a step horizon (livelock/deadlock detection) of real posters vs the real consumer",
   text="2 (quick) or 3 (thorough) posters (fifo, lifo, mixed; capacity 500 and 3) race the running active-object thread; every schedule with <= 2 preemptions at source-line granularity is run to quiescence under a scheduler that is fair after the deviations are spent; a run that reaches the step horizon is a livelock, all-blocked with an unfinished poster is a deadlock.",
   note="Bounds: preemption bound 2, horizon 2000 scheduling points (normal runs need ~120); fairness = forced rotation after 60 consecutive points of one thread.", ref="4.5, 6/C05"),
 "C14": dict(engine=C, technique="explicit-state BFS over operation sequences on the real HsmWithQueues vs a list reference model",
   text="Breadth-first search over all sequences (depth <= 6 quick / 8 thorough) of post_fifo/post_lifo (4 signals, some of whose handlers post fifo/lifo from inside the step), next_rtc and complete_circuit on a real queued chart (spied and plain states), deduplicated on queue contents; every transition compares return value, dispatch log and queue contents with a plain list.",
   note="Events with equal signals are interchangeable; capacity never reached (C16 covers overflow).", ref="5, 6/C14"),
 "C15": dict(engine=C, technique="explicit-state BFS over operation sequences on the real HsmWithQueues vs a two-list reference model",
   text="Breadth-first search over all sequences (depth <= 6 / 8) of posts, external defer/recall, handlers that defer and recall during a step, next_rtc and complete_circuit, deduplicated on (queue, deferred) contents; recall's return value, dispatch log and both queues compared with two lists.",
   note="Events with equal signals are interchangeable.", ref="5, 6/C15"),
 "C16": dict(engine=C, technique="explicit-state BFS over queue-operation sequences on the real LockingDeque (over the controlled Queue stand-in, so blocking is observable) and the real queued chart",
   text="BFS over all sequences (depth <= 7 / 9) of append, appendleft, take-front/back (wait+pop+task_done), raw pop/popleft, clear, len on a real LockingDeque and of post_fifo/post_lifo/next_rtc on a real queued chart, capacities 2, 3 (and 500 to depth 4), deduplicated on (relative order of contents, tokens, unfinished tasks). Oracle = the property's clauses: bounded, deque-like below capacity, new event kept at its end at capacity with the survivors in order, token count, clear never raises, nothing blocks.",
   note="Which old event an overflowing post displaces is not constrained. Concurrent posting is covered by C04/C05.", ref="5, 6/C16"),
 "C26": dict(engine=C, technique="bounded-exhaustive enumeration of a payload/name grammar through the real dumps/loads", level="model_checking",
   text="Every payload of a grammar (14 atoms incl. big ints, extreme floats, empty/non-ascii/lone-surrogate strings; lists and string-keyed dicts of size <= 2; nesting depth <= 3 quick / 4 thorough) x 9 kinds of signal name (new name arriving as text, known, inner, empty, non-identifier, non-ascii) is round-tripped; name, type-strict payload equality, number == this process's number, and stability of all other registry entries are checked.",
   note="The grammar is the alphabet.", ref="5, 6/C26"),
 "C28": dict(engine=C, technique="bounded-exhaustive enumeration of a statement grammar executed from generated source against the real descriptor, lock probed from a second thread", level="model_checking",
   text="110 (quick) / 170 (thorough) statement templates that read or write a thread-safe attribute (12 binary operators, 6 comparisons, calls, subscripts, f-strings, conditionals, if/while/assert heads, plain/tuple/chained writes, 12 augmented assignments to the attribute and to other targets, the '_, _lock =' form, two statements per line, multi-line forms, nesting depth 2) are each executed once from a generated module; afterwards a second thread must be able to take each attribute's lock. Two line-classification corner cases are listed as known findings.",
   note="Statement forms outside the grammar are not covered; @= excluded.", ref="5, 6/C28"),
 "C29": dict(engine=C, technique="explicit-state BFS over create/assign/read sequences on fresh classes vs a dict per instance",
   text="BFS over all sequences (depth <= 5 / 6) of new-instance, set and read on fresh classes with 1-2 thread-safe attributes and up to 3 instances; after every operation every attribute of every instance is read back and compared with a dict per instance (default 0).",
   note="Values 1 and 7, attributes a and b.", ref="5, 6/C29"),
 "C32": dict(engine=C, technique="bounded-exhaustive enumeration of miros-produced traces x perturbation catalogue through the real stripped()", level="model_checking",
   text="Traces produced by a real queued chart under a scripted clock (6 chart names incl. None/digits/blank/non-ascii, 1-4 records, 3 clock scripts) are perturbed with a catalogue (other timestamps, blank lines, spaces/tabs around lines, CRLF, missing outer newlines: must compare equal; renamed state/signal/chart, dropped/duplicated/swapped records: must differ) and single lines are compared with the same line inside a block.",
   note="Names contain no brackets or newlines.", ref="5, 6/C32"),
 "C10": dict(engine=B, technique="stateless deviation-bounded exploration (preemptions + early-timer deviations) of the real timer threads on a virtual clock",
   text="Real post_fifo/post_lifo timed sources (periods 0.5/1.0, times 0-3, deferred or not, fifo/lifo, and two sources at once) run on the real ActiveObject with the scheduler owning time; every schedule with <= 1-2 deviations (a preemption at a source line of the timer/queue code, or the clock advancing although a thread could run) is executed up to a 2 s virtual horizon; the virtual instants, count and queue end (append/appendleft) of every post are compared with the arithmetic schedule p*k.",
   note="Time is virtual: counts and instants relative to sleep(); drift/latency only as 'late, never early, never closer than the period'. times=0 checked up to the horizon.", ref="4.4, 6/C10"),
 "C11": dict(engine=B, technique="stateless deviation-bounded exploration of cancel_event/cancel_events racing the real timer threads on a virtual clock",
   text="2-3 real timed sources over signals {A, A, B}; cancel by id (returned object, equal copy rebuilt from text) and by name (Event(number), Event('name'), built event, dumps/loads round trip); the cancelling call is placed by the explorer at every scheduling point of the window (bound 0-2 incl. early timers). Oracle: no append by a cancelled source after the cancel call returned (scheduler step indices), the uncancelled sources keep the C10 schedule, exactly the cancelled entries leave the tracked list.",
   note="'after the call returned' = scheduler step index; virtual time; bounds per parameter set 0-2.", ref="6/C11"),
 "C12": dict(engine=B, technique="stateless deviation-bounded exploration of stop() racing the object's thread, its timers, a bystander object and the fabric",
   text="An active object with 0-2 pending events and 0-2 timed sources, a second active object and the running fabric as bystanders; stop() from another thread is placed at every point of the window (bound 1-2) and stop() from inside a handler. Oracle: when the outside stop() returned the thread is finished, no later run-to-completion step, all source flags cleared and nothing tracked, no later timer append; handler stop ends the thread after the current step; the bystander still dispatches a fresh post and a fresh publication and both fabric threads live.",
   note="Bounds: deviation bound 1-2 per parameter set, line-level points in the queue/timer/stop/fabric code.", ref="6/C12"),
 "C25": dict(engine=B, technique="explicit-state BFS over registry operation sequences vs dict+counter, plus stateless preemption-bounded exploration of concurrent registrations with an invariant at every scheduling point",
   text="(a) BFS over all sequences (depth <= 5) of append / attribute access / Event(name) / Event(number) / name_for_signal / is_inner_signal over colliding, odd and inner names on the real registry vs a dict and a counter; (b) 2-3 threads x 1-2 registry operations with names forced to collide, every schedule with <= 2 preemptions at line (quick) / instruction (thorough) granularity of miros.event; invariant at every scheduling point: a name's number never changes, numbers distinct positive; final bijection and matching (name, number) in every event.",
   note="Names that shadow OrderedDict attributes are excluded from attribute access. The registry is process-global: each path removes what it added.", ref="6/C25"),
 "C27": dict(engine=B, technique="stateless preemption-bounded exploration of real threads executing generated statements on a thread-safe attribute, lock stand-in controlled",
   text="2-3 threads x 1-2 statements from {x = o.a, o.a = v, o.a += 1, o.a -= 1, o.a += 3} (the statements live in a generated source file because the descriptor classifies the caller's source line) run against the real descriptor with its RLock replaced by the controlled stand-in; every schedule with <= 2 preemptions (3 for one harness, thorough) at every lock operation and every line (quick) / shared-access instruction (thorough) of the descriptor. Oracle: no exception, no deadlock, final value and values read are those of some serial order of the statements.",
   note="'o.a = o.a + 1' is a read plus a write, not atomic by contract: excluded.", ref="6/C27"),
 "C30": dict(engine=B, technique="stateless preemption-bounded exploration of concurrent first requests to each SingletonDecorator",
   text="For each of the five decorated classes (and a fresh decorator per class) the instance is reset and 2-3 threads make the first request at once; every schedule with <= 2 preemptions at line (quick) / instruction (thorough) granularity of SingletonDecorator.__call__ and the constructors. Oracle: all callers got the same object and it is the one later calls return; no exception.",
   note="Signal()/ReturnStatus() are first requested at import time in a real process: the check exercises the decorator's guarantee with fresh decorators of those classes.", ref="6/C30"),
 "C31": dict(engine=B, technique="stateless deviation-bounded exploration of the rejected third timed post vs the new timer thread on a virtual clock",
   text="An ActiveObject subclass with room for two timed sources; the third timed post (deferred or not, fifo/lifo, one-shot/periodic) must raise ActiveObjectOutOfPostedEventResources, its event must never be appended, the two tracked sources keep the C10 schedule; every schedule of the caller vs the timer threads with <= 1 (quick) / 2 (thorough) deviations.",
   note="Capacity reduced through the subclass attribute QUEUE_SIZE = 2.", ref="6/C31"),
 "C06": dict(engine=B, technique="explicit-state BFS over subscribe/publish sequences on the real fabric (delivery threads run under the controlled scheduler) vs a set model, plus stateless preemption-bounded exploration of concurrent subscribe/publish",
   text="(a) BFS to depth 5 (quick) / 6 (thorough) over {start, subscribe(3 queues x 2 signals x 2 kinds), publish(2 signals)} on the real ActiveFabric - two of the queues are distinct but equal plain deques, one is a LockingDeque; the real delivery threads run to quiescence after every operation; states are deduplicated on (started, real registry by queue identity, queue contents) and every transition compares the per-queue multiset of delivered events with a set model (exactly once per kind, nobody else, re-subscription changes nothing). (b) 6-9 harnesses with two or three threads subscribing/publishing at once against the running delivery threads, every schedule with <= 1-2 preemptions at line granularity of the fabric code; a publication invoked after a subscribe call returned must reach that queue exactly once, a final publication after all calls returned must reach exactly the subscribed queues.",
   note="Delivery order is not part of C06 (C08/C09). A publication overlapping a subscribe call may or may not reach that queue.", ref="6/C06"),
 "C07": dict(engine=B, technique="exhaustive enumeration of the active-object publish/subscribe configuration matrix on real active objects under the controlled scheduler, plus preemption-bounded exploration of the publication window",
   text="The full matrix {spied/plain subscriber} x {spied/plain publisher} x {subscribe before start_at, after it from outside, from a handler, by signal number} x {publish from outside, from a handler, before the publisher's start_at, by the subscriber itself} x {no prior subscriber, another object on the same signal, same object other kind} x {fifo, lifo, default} (448 configurations) is run on real ActiveObjects, fabric and delivery threads under the default schedule; ~100 of them additionally under every schedule with <= 1 preemption (2 for a subset, thorough) of the publication window. Oracle: the subscriber dispatches the publication exactly once per subscription kind, the earlier subscriber exactly once, objects that never subscribed never.",
   note="The subscription is settled before the publication is made; a publication racing its own subscription is not constrained.", ref="6/C07"),
 "C08": dict(engine=B, technique="exhaustive enumeration of publish sequences under total delivery lag + stateless preemption-bounded exploration of publishers racing the delivery threads; put/get log replayed on a stable priority queue",
   text="(a) every publish sequence of length <= 4 (quick) / 5 (thorough; plus runs of 6-8 equal/mixed priorities) over priorities {1, 2, default} x 2 signals, published before start() and to a started fabric whose delivery threads have not run yet, with three subscribers: subscriber contents must equal the stable sort by priority. (b) one or two publisher threads racing both delivery threads, every schedule with <= 1-2 preemptions: at every get of a fabric queue the item must have the smallest priority number waiting and no waiting item of the same priority may have been published before it; the subscriber holds exactly what its delivery thread took, in that order.",
   note="Two overlapping publish calls from different threads may be ordered either way.", ref="6/C08"),
 "C09": dict(engine=B, technique="stateless preemption-bounded exploration of fabric deliveries into a real active object's queue whose consumer is parked in a gated handler; reference deque replay",
   text="An active object subscribed fifo / lifo / default / both ways (before or after start_at) has 0-2 pending events while its consumer waits inside a gated handler; the bare fabric or another active object publishes 1-2 events while a poster posts one more; every schedule with <= 1 (2 for some, thorough) preemptions. Oracle: each delivery uses the front (lifo) or the back (fifo) of the real deque, and both the pending queue and the dispatch order after the gate opens equal the replay of the same history as post_lifo/post_fifo calls on a reference deque.",
   note="Front = the end the consumer pops from.", ref="6/C09"),
 "C13": dict(engine=B, technique="explicit-state BFS over start/stop/clear/subscribe/publish/active-object sequences on the real fabric under the controlled scheduler (thread table = ground truth), plus stateless preemption-bounded exploration of concurrent start/stop/clear/start_at",
   text="(a) BFS to depth 6 (quick) / 7 (thorough) over {start, stop, clear, subscribe, publish, start an active object, post to it} on the real ActiveFabric and a real ActiveObject; live delivery threads are counted in the scheduler's own thread table (not through the handles the fabric keeps) and the invariant '<= 1 live thread per kind' is evaluated at every scheduling point; after every op: is_alive() == both live, stop() returned (a hang is a deadlock verdict) and left none live, the fabric runs after start, an object woken after stop() halts, publications made while running reach the subscribed queue and object exactly once. (b) start||start, start_at||start_at, stop||start, stop||stop, stop||start_at, clear||stop from two or three threads, every schedule with <= 2 deviations; afterwards stop(), start(), subscribe, publish must work.",
   note="Publications made while the fabric does not run are unconstrained; an object due to halt whose fabric was restarted before it woke is unconstrained.", ref="6/C13"),
 "C18": dict(engine=A, technique="explicit-state enumeration of (chart, configuration, event) scenarios run in lock-step under every instrumentation configuration, compared with the un-instrumented reference",
   text="The scenario families of C01 (transitions with init chains), C02 (bubbling, handled, declined, ignored) and C03 (start) on all forests <= 5 (quick) / 6 states, plus charts whose handlers post, defer, recall and scribble, are executed under 15 sequential configurations {HsmEventProcessor, InstrumentedHsmEventProcessor, HsmWithQueues(instrumented on/off)} x {plain, spied states} x live_spy x live_trace x {dispatch, post+next_rtc} and, for forests <= 3/4, on a real ActiveObject (spied/plain x named/unnamed x live flags) under the controlled scheduler; each run's ordered action log (entry/exit/init/offers) and resting state must equal the reference model's, no configuration may raise.",
   note="Behaviour = ordered handler invocations with ENTRY/EXIT/INIT/user signals + resting state; probes with EMPTY/SEARCH_FOR_SUPER/REFLECTION are not behaviour.", ref="3, 6/C18"),
 "C19": dict(engine=A, technique="explicit-state enumeration of scenarios on instrumented hosts; per-step spy compared line by line with the handlers' own nested invocation log",
   text="For every scenario of the C01/C02/C03 families on forests <= 6 (quick) / 7 (+ spines of depth 9-10) and handler-script charts (posts, defers, recalls, scribbles from signal/entry/exit/init handlers) on instrumented and queued hosts (dispatch and post+next_rtc), the per-step spy must be exactly: START (start_at), one line per invocation the processor made, ':HOOK' after an offer that returned HANDLED, the markers of the actions in place, the queue reflection last; spy() must be the concatenation of the step logs cut to the ring size (rings reduced to 10/6 in one plan so that truncation is reached).",
   note="The oracle is the list of invocations logged by the handlers themselves, not a re-implementation of the processor's search. External posts between steps are outside a step's log.", ref="3, 6/C19"),
 "C20": dict(engine=A, technique="explicit-state enumeration of scenarios on instrumented hosts and on a real active object; new trace records per step compared with 'an offer returned TRAN' from the invocation log / the reference model",
   text="For every scenario of the C01/C02/C03 families on forests <= 6 / 7 and handler-script charts, on instrumented and queued hosts (named/unnamed, dispatch and post+next_rtc, trace ring 500 and 2): start_at adds (top -> start configuration), a step adds exactly one record (previous, signal, new) iff an offer of its event returned a transition, nothing otherwise; the ring keeps the latest in order; trace() equals an independent rendering. On a real ActiveObject (forests <= 3/4) with subscribe/publish/post called before start_at the records are compared with the reference model: meta events leave no record.",
   note="'Caused a transition' is read from the handlers' own log.", ref="3, 6/C20"),
 "C21": dict(engine=A, technique="explicit-state enumeration of scenarios x scripted clocks on a queued chart and on a real active object (writer thread under the controlled scheduler)",
   text="3-step transition chains, C02/C03 families (forests <= 5 / 6) and handler-script charts on a queued host driven by post+next_rtc with live spy / live trace on and off under 8 clock scripts (strictly increasing; advancing every 2nd/8th/64th call; constant within a step; across 2 or 3 steps; frozen): the spy callback must receive exactly the step's spy lines and the trace callback exactly the rendering of the step's new records, once, in order. The same on a real ActiveObject whose lines pass through the InstrumentionWriter thread (4 clock scripts; every 1-preemption schedule for a 2-state chart).",
   note="The clock is the module-level name miros.hsm.stdlib_datetime replaced by a scripted class.", ref="3, 6/C21"),
}
NOT_YET = "check not built yet in this round (planned, see DESIGN.md section 6)"

def main():
    checks = []
    for pid in ALL:
        if pid not in CHECKS:
            continue
        c = CHECKS[pid]
        checks.append({
            "property_id": pid,
            "quick_cmd": "timeout 900 ./check %s --tier quick" % pid,
            "thorough_cmd": "timeout 14000 ./check %s --tier thorough" % pid,
            "evidence_file": "/verif/evidence/%s.json" % pid,
            "replay_cmd_template": "./check %s --replay {path}" % pid,
            "engine": c["engine"],
            "level_claimed": {"category": c.get("level", "model_checking"), "text": c["text"], "design_ref": c["ref"]},
            "level_note": c["note"],
            "technique": c["technique"],
        })
    m = {
        "version": 1,
        "setup_cmd": "/venv/bin/python -m compileall -q mc && /venv/bin/python -m mc.selftest",
        "hooks": {"guard": "MIROS_VERIF", "enable": "no source hooks: every seam is a module-level or class-level name rebound by the harness at run time",
                  "baseline_off_cmd": "cd /repo && /venv/bin/python -m pytest -ra -q -p no:cacheprovider --timeout=900 --continue-on-collection-errors",
                  "source_commits": [], "add_only": True},
        "engines": [
            {"name": A, "path": "mc/charts.py mc/hsmrun.py mc/refmodel.py mc/forests.py mc/instr.py mc/instrcheck.py", "serves_properties": [p for p in ALL if p in CHECKS and CHECKS[p]["engine"] == A],
             "kind_free_text": "explicit-state search over (chart, configuration, event) calling the real start_at/dispatch/next_rtc; oracle = small UML reference model"},
            {"name": B, "path": "mc/sched.py mc/explore.py", "serves_properties": [p for p in ALL if p in CHECKS and CHECKS[p]["engine"] == B],
             "kind_free_text": "stateless preemption-bounded exploration (CHESS style) of the real miros threads under a cooperative scheduler with stand-in primitives and sys.monitoring scheduling points"},
            {"name": C, "path": "mc/props", "serves_properties": [p for p in ALL if p in CHECKS and CHECKS[p]["engine"] == C],
             "kind_free_text": "bounded-exhaustive enumeration of operation sequences / inputs against a reference model (BFS with canonical states where a state graph exists)"},
        ],
        "checks": checks,
        "not_applicable": [{"property_id": p, "reason": NOT_YET} for p in ALL if p not in CHECKS],
        "notes": "All checks run /venv/bin/python (3.12) against MIROS_REPO (default /repo) imported from source. Exit 2 = tooling error.",
    }
    with open(os.path.join(HERE, "MANIFEST.json"), "w") as f:
        json.dump(m, f, indent=1)
    print("checks=%d not_applicable=%d" % (len(checks), len(m["not_applicable"])))

if __name__ == "__main__":
    main()
