#!/usr/bin/env python3
"""finding.py <PID> <key> <fixed|known> <commit|-> <what...>: append an entry to known_findings.json (by hand, never at run time)"""
import sys, json, os
HERE = os.path.dirname(os.path.dirname(os.path.abspath(__file__)))
pid, key, status, commit = sys.argv[1:5]
what = " ".join(sys.argv[5:])
p = os.path.join(HERE, "known_findings.json")
d = json.load(open(p))
e = {"property": pid, "key": key, "status": status}
if status == "fixed":
    e["commit"] = commit
    e["what"] = "fixed: property=%s %s %s" % (pid, commit, what)
else:
    e["what"] = what
d["findings"] = [f for f in d["findings"] if not (f["property"] == pid and f["key"] == key)] + [e]
json.dump(d, open(p, "w"), indent=1)
print("recorded", e["key"], status)
