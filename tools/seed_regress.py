#!/usr/bin/env python3
"""Run every kept seeded change against the check(s) that are supposed to catch it (meta.json: caught_by, default: its own
property) in a scratch worktree; print a table; exit 1 if a seed is no longer detected.
usage: seed_regress.py [seed_id ...]"""
import sys, os, json, subprocess, time
VERIF = os.path.dirname(os.path.dirname(os.path.abspath(__file__)))
sys.path.insert(0, os.path.join(VERIF, "tools"))
import seed as S

ids = sys.argv[1:] or sorted(os.listdir(os.path.join(VERIF, "seeded")))
bad = []
for sid in ids:
    d = os.path.join(VERIF, "seeded", sid)
    m = json.load(open(os.path.join(d, "meta.json")))
    if m.get("out_of_scope"):
        print("SEED %-40s skipped: out of scope (%s)" % (sid, m["out_of_scope"][:80]), flush=True)
        continue
    pids = m.get("caught_by") or [m["property"]]
    t = time.time()
    try:
        r = S.detect(d, pids)
    except AssertionError as e:
        r = {"error": str(e)[:120]}
    ok = any(rc == 1 for rc in r.values())
    print("SEED %-40s %-8s %s (%.0fs)" % (sid, ",".join(pids), "detected" if ok else "NOT DETECTED %r" % r, time.time() - t), flush=True)
    if not ok:
        bad.append(sid)
print("seeds: %d, not detected: %r" % (len(ids), bad))
sys.exit(1 if bad else 0)
